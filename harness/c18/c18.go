//go:build verif

// Package c18: the breaker trips exactly when its condition holds; side effects
// fire once per transition. Programs (condition expressions) are generated from
// the grammar; each is run on the real CircuitBreaker against a three-valued
// reference evaluator over a log of the responses since the last trip.
package c18

import (
	"fmt"
	"net/http"
	"net/http/httptest"
	"strings"
	"time"

	"github.com/vulcand/oxy/v2/cbreaker"
	"github.com/vulcand/oxy/v2/internal/holsterv4/clock"
	"github.com/vulcand/oxy/v2/internal/verif/vrt"
	"github.com/vulcand/oxy/v2/zverif/lib"
)

// ---- programs

type tv int // three-valued truth

const (
	F tv = iota
	T
	U
)

func and3(a, b tv) tv {
	if a == F || b == F {
		return F
	}
	if a == T && b == T {
		return T
	}
	return U
}

func or3(a, b tv) tv {
	if a == T || b == T {
		return T
	}
	if a == F && b == F {
		return F
	}
	return U
}

type node struct {
	kind string // atom, and, or
	l, r *node
	// atom
	fn   string // ner, rcr, lat
	args [4]int
	q    float64
	cmp  string
	fval float64
	ival int
	// rendering hint
	paren bool
}

func (n *node) String() string {
	var s string
	switch n.kind {
	case "atom":
		switch n.fn {
		case "ner":
			s = fmt.Sprintf("NetworkErrorRatio() %s %.1f", n.cmp, n.fval)
		case "rcr":
			s = fmt.Sprintf("ResponseCodeRatio(%d, %d, %d, %d) %s %.1f", n.args[0], n.args[1], n.args[2], n.args[3], n.cmp, n.fval)
		default:
			s = fmt.Sprintf("LatencyAtQuantileMS(%.1f) %s %d", n.q, n.cmp, n.ival)
		}
		return s
	case "and":
		s = n.l.String() + " && " + n.r.String()
	default:
		s = n.l.String() + " || " + n.r.String()
	}
	if n.paren {
		return "(" + s + ")"
	}
	return s
}

var cmps = []string{"<", "<=", ">", ">=", "==", "!="}

func atoms() []*node {
	var out []*node
	for _, c := range cmps {
		for _, x := range []float64{0.0, 0.5, 1.0} {
			out = append(out, &node{kind: "atom", fn: "ner", cmp: c, fval: x})
			out = append(out, &node{kind: "atom", fn: "rcr", args: [4]int{500, 600, 0, 600}, cmp: c, fval: x})
			out = append(out, &node{kind: "atom", fn: "rcr", args: [4]int{400, 500, 200, 300}, cmp: c, fval: x})
		}
		for _, q := range []float64{50.0, 99.0} {
			out = append(out, &node{kind: "atom", fn: "lat", q: q, cmp: c, ival: 100})
		}
	}
	return out
}

func cp(n *node) *node { c := *n; return &c }

// programs: all atoms, plus a deterministic covering selection of compound ones.
func programs(tier string) []*node {
	as := atoms()
	out := append([]*node{}, as...)
	stride2, stride3 := 97, 4999
	if tier == "thorough" {
		stride2, stride3 = 13, 499
	}
	k := 0
	for i, a := range as {
		for j, b := range as {
			for _, op := range []string{"and", "or"} {
				if k%stride2 == 0 || (i == j && op == "and" && i%7 == 0) {
					out = append(out, &node{kind: op, l: a, r: b})
				}
				k++
			}
		}
	}
	// two connectives: Go precedence with and without parentheses
	k = 0
	for _, a := range as {
		for _, b := range as {
			for _, c := range as {
				if k%stride3 == 0 {
					form := (k / stride3) % 6
					switch form {
					case 0: // A && B || C  == (A&&B)||C
						out = append(out, &node{kind: "or", l: &node{kind: "and", l: a, r: b}, r: c})
					case 1: // A || B && C == A||(B&&C)
						out = append(out, &node{kind: "or", l: a, r: &node{kind: "and", l: b, r: c}})
					case 2: // (A || B) && C
						out = append(out, &node{kind: "and", l: &node{kind: "or", l: a, r: b, paren: true}, r: c})
					case 3: // A && (B || C)
						out = append(out, &node{kind: "and", l: a, r: &node{kind: "or", l: b, r: c, paren: true}})
					case 4:
						out = append(out, &node{kind: "and", l: &node{kind: "and", l: a, r: b}, r: c})
					default:
						out = append(out, &node{kind: "or", l: &node{kind: "or", l: a, r: b}, r: c})
					}
				}
				k++
			}
		}
	}
	return out
}

// ---- reference

type resp struct {
	at      time.Time
	code    int
	latency time.Duration
}

func cmpF(c string, a, b float64) bool {
	switch c {
	case "<":
		return a < b
	case "<=":
		return a <= b
	case ">":
		return a > b
	case ">=":
		return a >= b
	case "==":
		return a == b
	}
	return a != b
}

func cmpI(c string, a, b int) bool { return cmpF(c, float64(a), float64(b)) }

func agree(vals []bool) tv {
	t, f := false, false
	for _, v := range vals {
		if v {
			t = true
		} else {
			f = true
		}
	}
	if t && f {
		return U
	}
	if t {
		return T
	}
	return F
}

// evalAtom under every admissible reading of the metrics windows.
func evalAtom(n *node, log []resp, now time.Time) tv {
	switch n.fn {
	case "ner", "rcr":
		// counters: an entry younger than 9s is certainly counted, one older than 10s certainly not
		var sure, maybe []resp
		for _, r := range log {
			age := now.Sub(r.at)
			if age < 9*time.Second {
				sure = append(sure, r)
			} else if age <= 10*time.Second {
				maybe = append(maybe, r)
			}
		}
		inA := func(r resp) bool {
			if n.fn == "ner" {
				return r.code == 502 || r.code == 504
			}
			return r.code >= n.args[0] && r.code < n.args[1]
		}
		inB := func(r resp) bool {
			if n.fn == "ner" {
				return true
			}
			return r.code >= n.args[2] && r.code < n.args[3]
		}
		a0, b0 := 0, 0
		for _, r := range sure {
			if inA(r) {
				a0++
			}
			if inB(r) {
				b0++
			}
		}
		// the ambiguous entries may or may not be counted; A and B counters may differ at the boundary
		ma, mb := 0, 0
		for _, r := range maybe {
			if inA(r) {
				ma++
			}
			if inB(r) {
				mb++
			}
		}
		var vals []bool
		for da := 0; da <= ma; da++ {
			for db := 0; db <= mb; db++ {
				a, b := a0+da, b0+db
				ratio := 0.0
				if b != 0 {
					ratio = float64(a) / float64(b)
				}
				vals = append(vals, cmpF(n.cmp, ratio, n.fval))
			}
		}
		return agree(vals)
	default:
		// rolling histogram (6 x 10s, rotated lazily, oldest bucket first): what it holds is a
		// suffix (in time) of the responses since the last trip that contains at least everything
		// younger than 50s. Evaluate over every such suffix.
		for _, r := range log {
			if r.latency > time.Hour {
				return U // whether a latency beyond the histogram's range is kept (clamped) or dropped is not part of the property
			}
		}
		sawT, sawF := false, false
		var cs []vc // distinct latency values (ms) with counts, kept sorted
		cnt := 0
		add := func() {
			for _, v := range quantileValues(cs, cnt, n.q) {
				if cmpI(n.cmp, v, n.ival) {
					sawT = true
				} else {
					sawF = true
				}
			}
		}
		firstSure := len(log)
		for i, r := range log {
			if now.Sub(r.at) < 50*time.Second {
				firstSure = i
				break
			}
		}
		if firstSure == len(log) {
			add() // possibly nothing is retained
		}
		for i := len(log) - 1; i >= 0 && !(sawT && sawF); i-- {
			v := int(log[i].latency / time.Millisecond)
			j := 0
			for j < len(cs) && cs[j].v < v {
				j++
			}
			if j < len(cs) && cs[j].v == v {
				cs[j].c++
			} else {
				cs = append(cs, vc{})
				copy(cs[j+1:], cs[j:])
				cs[j] = vc{v, 1}
			}
			cnt++
			if i <= firstSure {
				add()
			}
		}
		switch {
		case sawT && sawF:
			return U
		case sawT:
			return T
		}
		return F
	}
}

type vc struct{ v, c int }

// quantileValues: admissible values (ms) of the q-th percentile of a multiset given
// as value->count: the k-th smallest with k = round(q/100*n), and k-1, k+1 (the
// histogram's rank convention is not part of the property); 0 for an empty set.
func quantileValues(cs []vc, n int, q float64) []int {
	if n == 0 {
		return []int{0}
	}
	k := int(q/100*float64(n) + 0.5)
	out := make([]int, 0, 3)
	for _, kk := range [3]int{k - 1, k, k + 1} {
		if kk < 1 {
			kk = 1
		}
		if kk > n {
			kk = n
		}
		c := 0
		for _, e := range cs {
			c += e.c
			if c >= kk {
				out = append(out, e.v)
				break
			}
		}
	}
	return out
}

func eval(n *node, log []resp, now time.Time) tv {
	switch n.kind {
	case "atom":
		return evalAtom(n, log, now)
	case "and":
		return and3(eval(n.l, log, now), eval(n.r, log, now))
	}
	return or3(eval(n.l, log, now), eval(n.r, log, now))
}

// ---- system

type effect struct{ n *int }

func (e effect) Exec() error { *e.n++; return nil }

type sys struct {
	prog        *node
	checkPeriod time.Duration
	cb          *cbreaker.CircuitBreaker
	invoked     int
	code        int
	latency     time.Duration
	onTripped   int
	onStandby   int
	// reference
	log          []resp
	lastChecks   []time.Time // candidate values of "next evaluation not before"
	sawTrips     int
	sawStandbys  int
	evaluations  int
	definiteT    int
	definiteF    int
	undetermined int
}

var base = clock.Date(2012, 3, 4, 5, 6, 7, 0, clock.UTC)

const (
	fallbackD = 2 * time.Second
	recoveryD = 2 * time.Second
)

func newSys(p *node, checkPeriod time.Duration) (*sys, error) {
	clock.Freeze(base)
	vrt.DeferGo = true
	vrt.Deferred = nil
	s := &sys{prog: p, checkPeriod: checkPeriod}
	h := http.HandlerFunc(func(w http.ResponseWriter, r *http.Request) {
		s.invoked++
		clock.Advance(s.latency)
		if s.code == 200 && s.latency < time.Second {
			w.Write([]byte("ok")) // the quick healthy answer never chooses a status: an IMPLICIT 200
			return
		}
		if s.code == 504 {
			w.WriteHeader(http.StatusEarlyHints) // the slow failing answer sends an informational response first
		}
		w.WriteHeader(s.code)
	})
	cb, err := cbreaker.New(h, p.String(), cbreaker.FallbackDuration(fallbackD), cbreaker.RecoveryDuration(recoveryD), cbreaker.CheckPeriod(checkPeriod),
		cbreaker.OnTripped(effect{&s.onTripped}), cbreaker.OnStandby(effect{&s.onStandby}))
	if err != nil {
		return nil, err
	}
	s.cb = cb
	return s, nil
}

func (s *sys) state() string {
	str := s.cb.String()
	i := strings.Index(str, "state=")
	str = str[i+6:]
	if j := strings.IndexAny(str, ",)"); j >= 0 {
		str = str[:j]
	}
	return str
}

type verdict struct{ key, detail string }

// request: one request whose handler (if reached) answers code after latency.
func (s *sys) request(code int, latency time.Duration) (string, []verdict) {
	var vs []verdict
	s.code, s.latency = code, latency
	before := s.state()
	inv := s.invoked
	s.cb.ServeHTTP(httptest.NewRecorder(), httptest.NewRequest("GET", "http://x/", nil))
	served := s.invoked > inv
	after := s.state()
	now := clock.Now().UTC()
	vrt.RunDeferred()
	obs := fmt.Sprintf("%s>%s served=%v", before, after, served)
	trippedNow := after == "tripped" && (before != "tripped")
	if before == "recovering" && after == "standby" || (before == "recovering" && after == "tripped" && served && s.standbyThenTrip(now)) {
		// recovering->standby observed directly; a recovering->standby->tripped hop inside one request is handled below
	}
	if served {
		s.log = append(s.log, resp{now, code, latency})
		// does this completion evaluate the condition?
		sure, possible := true, false
		for _, lc := range s.lastChecks {
			if now.After(lc) {
				possible = true
			} else {
				sure = false
			}
		}
		if len(s.lastChecks) == 0 {
			possible = true
		}
		ambiguousInstant := false
		for _, lc := range s.lastChecks {
			if now.Equal(lc) {
				ambiguousInstant = true // "first completion after the check period": equality is left open
			}
		}
		switch {
		case sure && possible:
			s.evaluations++
			want := eval(s.prog, s.log, now)
			switch want {
			case T:
				s.definiteT++
				if !trippedNow {
					vs = append(vs, verdict{"C18:condition-true-not-tripped", fmt.Sprintf("condition %q is true over the responses since the last trip %s but the breaker did not trip (%s)", s.prog, fmtLog(s.log, now), obs)})
				}
			case F:
				s.definiteF++
				if trippedNow {
					vs = append(vs, verdict{"C18:tripped-with-condition-false", fmt.Sprintf("condition %q is false over the responses since the last trip %s but the breaker tripped (%s)", s.prog, fmtLog(s.log, now), obs)})
				}
			default:
				s.undetermined++
			}
			s.lastChecks = []time.Time{now.Add(s.checkPeriod)}
		case possible || ambiguousInstant:
			// may or may not have evaluated: keep both candidates; a trip tells us it did
			if trippedNow {
				if eval(s.prog, s.log, now) == F {
					vs = append(vs, verdict{"C18:tripped-with-condition-false", fmt.Sprintf("condition %q is false %s but the breaker tripped (%s)", s.prog, fmtLog(s.log, now), obs)})
				}
				s.lastChecks = []time.Time{now.Add(s.checkPeriod)}
			} else {
				s.lastChecks = append(s.lastChecks, now.Add(s.checkPeriod))
			}
		default:
			if trippedNow {
				vs = append(vs, verdict{"C18:evaluated-within-check-period", fmt.Sprintf("breaker tripped at +%v although the check period (%v) since the last evaluation had not elapsed (%s)", now.Sub(base), s.checkPeriod, obs)})
			}
		}
	} else if trippedNow {
		vs = append(vs, verdict{"C18:tripped-without-response", obs})
	}
	if trippedNow {
		s.sawTrips++
		s.log = nil // tripping clears the metrics
	}
	if after == "standby" && before == "recovering" {
		s.sawStandbys++
	}
	if before == "recovering" && after == "tripped" && served {
		// the request may have found the recovery period over (-> standby) and then tripped
		// again at completion: OnStandby may legitimately have fired once more
		if s.onStandby == s.sawStandbys+1 {
			s.sawStandbys++
		}
	}
	if s.onTripped != s.sawTrips {
		vs = append(vs, verdict{"C18:on-tripped-count", fmt.Sprintf("OnTripped ran %d times, %d transitions into tripped were observed (%s)", s.onTripped, s.sawTrips, obs)})
		s.sawTrips = s.onTripped
	}
	if s.onStandby != s.sawStandbys {
		vs = append(vs, verdict{"C18:on-standby-count", fmt.Sprintf("OnStandby ran %d times, %d transitions into standby were observed (%s)", s.onStandby, s.sawStandbys, obs)})
		s.sawStandbys = s.onStandby
	}
	return obs, vs
}

func (s *sys) standbyThenTrip(time.Time) bool { return false }

func fmtLog(log []resp, now time.Time) string {
	var sb strings.Builder
	sb.WriteString("[")
	for i, r := range log {
		if i > 12 {
			sb.WriteString("...")
			break
		}
		fmt.Fprintf(&sb, "%d/%v@-%v ", r.code, r.latency, now.Sub(r.at))
	}
	return sb.String() + "]"
}

type opDesc struct {
	kind    int
	code    int
	latency time.Duration
	d       time.Duration
}

func alphabet(checkPeriod time.Duration) ([]string, []opDesc) {
	var names []string
	var descs []opDesc
	for _, r := range []struct {
		c int
		l time.Duration
	}{{200, 7 * time.Millisecond}, {500, 7 * time.Millisecond}, {502, 7 * time.Millisecond}, {404, 7 * time.Millisecond}, {200, time.Second}, {504, time.Second},
		// an exchange that lasted two hours (streaming / upgraded connection): beyond the latency histogram's range
		{200, 2 * time.Hour}} {
		names = append(names, fmt.Sprintf("Req(%d,%v)", r.c, r.l))
		descs = append(descs, opDesc{0, r.c, r.l, 0})
	}
	for _, d := range []time.Duration{checkPeriod + time.Millisecond, time.Second, 5 * time.Second, 11 * time.Second, 61 * time.Second} {
		names = append(names, fmt.Sprintf("Advance(%v)", d))
		descs = append(descs, opDesc{1, 0, 0, d})
	}
	return names, descs
}

func (s *sys) apply(d opDesc) (string, []verdict) {
	if d.kind == 1 {
		clock.Advance(d.d)
		return "", nil
	}
	return s.request(d.code, d.latency)
}

// deBruijn returns a cyclic sequence over k symbols containing every word of length n.
func deBruijn(k, n int) []int {
	a := make([]int, k*n)
	var seq []int
	var db func(t, p int)
	db = func(t, p int) {
		if t > n {
			if n%p == 0 {
				seq = append(seq, a[1:p+1]...)
			}
			return
		}
		a[t] = a[t-p]
		db(t+1, p)
		for j := a[t-p] + 1; j < k; j++ {
			a[t] = j
			db(t+1, t)
		}
	}
	db(1, 1)
	return seq
}

func Run(tier string, sh lib.Shard, rep *lib.Report) {
	progs := programs(tier)
	depth, window := 3, 4
	if tier == "thorough" {
		depth, window = 4, 5
	}
	cps := []time.Duration{100 * time.Millisecond, 2 * time.Second, 5 * time.Second} // 5s: longer than fallback + recovery
	rep.Bounds["programs"] = len(progs)
	rep.Bounds["exhaustive_history_depth_from_fresh"] = depth
	rep.Bounds["covering_window_length"] = window
	rep.Bounds["check_periods"] = []string{"100ms", "2s"}
	rep.Rule = "for every generated condition expression (all 66 atoms, a covering selection of one- and two-connective compounds with and without parentheses) and each check period: (a) every history of length <= depth over 6 responses x 5 clock advances from a fresh breaker, (b) one De Bruijn run containing every operation window of the stated length (histories continuing from non-initial states); at every completion the observed trip decision is compared with a three-valued reference evaluator (tightest and loosest reading of the metrics windows); non-trivial = evaluations with a definite reference verdict"
	rep.Assume("A2; counters window read as 9s..10s, latency histogram as 50s..since-last-trip; quantile rank +-1")
	rep.Require("definite_true_evaluations", "definite_false_evaluations", "trips_observed", "standby_returns_observed")
	fail := func(p *node, cpd time.Duration, mode string, ops []string, v verdict) {
		rep.Violate(v.key, v.detail, map[string]any{"engine": "enum", "binary": "vsched", "part": "c18", "program": p.String(), "check_ns": int64(cpd), "mode": mode, "ops": ops})
	}
	rep.Require("late_completion_scenarios")
	if sh.I == 0 {
		lateCompletions(rep)
	}
	for pi, p := range progs {
		if !sh.Mine(pi) {
			continue
		}
		rep.Count("programs_run")
		for _, cpd := range cps {
			names, descs := alphabet(cpd)
			collect := func(s *sys) {
				rep.Add("evaluations", s.evaluations)
				rep.Add("definite_true_evaluations", s.definiteT)
				rep.Add("definite_false_evaluations", s.definiteF)
				rep.Add("undetermined_evaluations", s.undetermined)
				rep.Add("trips_observed", s.sawTrips)
				rep.Add("standby_returns_observed", s.sawStandbys)
			}
			// (a) exhaustive short histories from a fresh breaker
			idx := make([]int, 0, depth)
			var rec func()
			rec = func() {
				if len(idx) > 0 {
					s, err := newSys(p, cpd)
					if err != nil {
						rep.Violate("C18:expression-rejected", fmt.Sprintf("cbreaker.New rejected %q: %v", p, err), map[string]any{"program": p.String(), "replayable": false})
						return
					}
					var ops []string
					for _, i := range idx {
						ops = append(ops, names[i])
						_, vs := s.apply(descs[i])
						for _, v := range vs {
							fail(p, cpd, "fresh", append([]string{}, ops...), v)
						}
					}
					rep.Evaluations++
					if len(idx) == depth {
						collect(s)
					}
				}
				if len(idx) == depth || lib.Expired() {
					return
				}
				for i := range names {
					idx = append(idx, i)
					rec()
					idx = idx[:len(idx)-1]
				}
			}
			rec()
			// (b) covering run
			s, err := newSys(p, cpd)
			if err != nil {
				continue
			}
			seq := deBruijn(len(names), window)
			seq = append(seq, seq[:window-1]...)
			for k, i := range seq {
				_, vs := s.apply(descs[i])
				for _, v := range vs {
					lo := k - 12
					if lo < 0 {
						lo = 0
					}
					var ops []string
					for _, j := range seq[lo : k+1] {
						ops = append(ops, names[j])
					}
					rep.Violate(v.key, v.detail, map[string]any{"engine": "enum", "binary": "vsched", "part": "c18", "program": p.String(), "check_ns": int64(cpd), "mode": "debruijn",
						"window": window, "step": k, "last_ops": ops})
				}
			}
			rep.Evaluations++
			rep.Transitions += len(seq)
			collect(s)
		}
		rep.Sample(3, p.String())
	}
	if lib.Expired() {
		rep.Exhaustive = false
	}
	rep.Nontrivial = rep.Counters["definite_true_evaluations"] + rep.Counters["definite_false_evaluations"]
	rep.States = rep.Counters["evaluations"]
}

// Replay re-runs a recorded case.
func Replay(rp map[string]any) (bool, string) {
	if rp["mode"] == "late-completion" {
		return replayLate(rp)
	}
	var p *node
	for _, tier := range []string{"quick", "thorough"} {
		for _, q := range programs(tier) {
			if q.String() == rp["program"] {
				p = q
			}
		}
	}
	if p == nil {
		return false, "unknown program"
	}
	cpd := time.Duration(int64(rp["check_ns"].(float64)))
	names, descs := alphabet(cpd)
	s, err := newSys(p, cpd)
	if err != nil {
		return true, err.Error()
	}
	var seq []int
	if rp["mode"] == "debruijn" {
		w := int(rp["window"].(float64))
		full := deBruijn(len(names), w)
		full = append(full, full[:w-1]...)
		seq = full[:int(rp["step"].(float64))+1]
	} else {
		for _, o := range rp["ops"].([]any) {
			for i, n := range names {
				if n == o.(string) {
					seq = append(seq, i)
				}
			}
		}
	}
	for _, i := range seq {
		_, vs := s.apply(descs[i])
		if len(vs) > 0 {
			return true, vs[0].key + " :: " + vs[0].detail
		}
	}
	return false, "history executed, every trip decision agrees with the reference"
}

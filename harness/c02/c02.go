// Package c02: traffic is routed only to current pool members. Explicit-state
// search over add/update/remove/request histories on the real RoundRobin and
// Rebalancer(RoundRobin), with and without sticky sessions (this file), and all
// interleavings of administration racing with requests (c02_sched.go).
package c02

import (
	"errors"
	"fmt"
	"net/http"
	"net/http/httptest"
	"net/url"
	"sort"
	"strings"
	"time"

	"github.com/vulcand/oxy/v2/internal/holsterv4/clock"
	"github.com/vulcand/oxy/v2/roundrobin"
	"github.com/vulcand/oxy/v2/zverif/lib"
)

// URL alphabet. Identity is (scheme, host, path): u4 and u5 are aliases of u0.
var urlAlphabet = []string{
	"http://a:80/x",     // u0
	"http://b:80/x",     // u1
	"https://a:80/x",    // u2: differs in scheme only
	"http://a:80/y",     // u3: differs in path only
	"http://usr@a:80/x", // u4: same identity as u0 (userinfo)
	"http://a:80/x?q=1", // u5: same identity as u0 (query)
	"http://a:8080/x",   // u6: differs in port only
	"http://c:80/x",     // u7
	"http://sa:80/x",    // u8: differs from u2 in scheme AND host, yet scheme+host+path concatenated without separators coincide ("http"+"sa:80" = "https"+"a:80")
}

// urlsFor: the URLs of a tier's alphabet (indices into urlAlphabet).
func urlsFor(tier string) []int {
	if tier == "thorough" {
		return []int{0, 1, 2, 3, 4, 5, 6, 7, 8}
	}
	return []int{0, 1, 2, 3, 4, 5, 8}
}

func mustURL(s string) *url.URL {
	u, err := url.Parse(s)
	if err != nil {
		panic(err)
	}
	return u
}

// reuse: the caller overwrites the url.URL value it passed to an administration call that has returned (the
// library must have kept a copy); returns a fresh, equal URL for the harness's own bookkeeping.
func reuse(u *url.URL) *url.URL {
	c := mustURL(u.String())
	lib.ReuseURL(u)
	return c
}

func identity(u *url.URL) string { return u.Scheme + "://" + u.Host + u.Path }

type member struct {
	id, stored string
	weight     int
}

// ref is the boring reference model: an ordered list of members.
type ref struct{ members []member }

func (r *ref) find(id string) int {
	for i, m := range r.members {
		if m.id == id {
			return i
		}
	}
	return -1
}

// upsert: w < 0 means "no weight option".
func (r *ref) upsert(u *url.URL, w int) {
	id := identity(u)
	if i := r.find(id); i >= 0 {
		if w >= 0 {
			r.members[i].weight = w
		}
		return
	}
	if w <= 0 {
		w = 1 // default weight (a new server cannot be created with weight 0)
	}
	r.members = append(r.members, member{id, u.String(), w})
}

func (r *ref) remove(u *url.URL) bool {
	i := r.find(identity(u))
	if i < 0 {
		return false
	}
	r.members = append(r.members[:i:i], r.members[i+1:]...)
	return true
}

type variant struct {
	rebalancer bool
	sticky     bool
}

func (v variant) String() string {
	s := "rr"
	if v.rebalancer {
		s = "rebalancer"
	}
	if v.sticky {
		s += "+sticky"
	}
	return s
}

// scriptMeter lets the harness decide what the rebalancer observes (public RebalancerMeter option).
type scriptMeter struct {
	rating float64
	ready  bool
}

func (m *scriptMeter) Rating() float64           { return m.rating }
func (m *scriptMeter) Record(int, time.Duration) {}
func (m *scriptMeter) IsReady() bool             { return m.ready }

type sys struct {
	meters     map[string]*scriptMeter // by server identity (rebalancer variants)
	upserting  string
	meterFails bool // the meter factory refuses to build a meter (RebalancerMeter option)
	v          variant
	rr         *roundrobin.RoundRobin
	rb         *roundrobin.Rebalancer
	ref        ref
	calls      int
	seen       string // URL the handler observed, as a string, before any rewriting
	rewrite    bool
	lastCode   int
}

func (s *sys) front() interface {
	ServeHTTP(http.ResponseWriter, *http.Request)
	Servers() []*url.URL
	UpsertServer(*url.URL, ...roundrobin.ServerOption) error
	RemoveServer(*url.URL) error
} {
	if s.v.rebalancer {
		return s.rb
	}
	return s.rr
}

func newSys(v variant) *sys {
	clock.Freeze(clock.Date(2012, 3, 4, 5, 6, 7, 0, clock.UTC))
	s := &sys{v: v}
	h := http.HandlerFunc(func(w http.ResponseWriter, r *http.Request) {
		s.calls++
		s.seen = r.URL.String()
		if s.rewrite {
			// what a forwarder or a user middleware may legitimately do to ITS request
			r.URL.Path = "/rewritten"
			r.URL.Host = "elsewhere:1"
			r.URL.Scheme = "ftp"
			r.URL.RawQuery = "z=9"
			r.URL.User = url.User("intruder")
		}
		w.WriteHeader(200)
	})
	var err error
	if v.rebalancer {
		s.rr, err = roundrobin.New(h)
		if err != nil {
			panic(err)
		}
		s.meters = map[string]*scriptMeter{}
		opts := []roundrobin.RebalancerOption{roundrobin.RebalancerBackoff(time.Second), roundrobin.RebalancerMeter(func() (roundrobin.Meter, error) {
			if s.meterFails {
				return nil, errors.New("meter factory failed")
			}
			m := &scriptMeter{ready: true}
			if s.upserting != "" {
				s.meters[s.upserting] = m
			}
			return m, nil
		})}
		if v.sticky {
			opts = append(opts, roundrobin.RebalancerStickySession(roundrobin.NewStickySession("sid")))
		}
		s.rb, err = roundrobin.NewRebalancer(s.rr, opts...)
	} else {
		var opts []roundrobin.LBOption
		if v.sticky {
			opts = append(opts, roundrobin.EnableStickySession(roundrobin.NewStickySession("sid")))
		}
		s.rr, err = roundrobin.New(h, opts...)
	}
	if err != nil {
		panic(err)
	}
	return s
}

// request sends one request; cookie != "" adds the affinity cookie with that raw value.
func (s *sys) request(rewrite bool, cookie string) (served bool, seen string, code int) {
	before := s.calls
	s.rewrite = rewrite
	rec := httptest.NewRecorder()
	req := httptest.NewRequest("GET", "http://client/", nil)
	if cookie != "" {
		req.AddCookie(&http.Cookie{Name: "sid", Value: cookie})
	}
	s.front().ServeHTTP(rec, req)
	s.rewrite = false
	s.lastCode = rec.Code
	return s.calls > before, s.seen, rec.Code
}

type opDesc struct {
	kind   int // 9 refused upsert (negative weight), 8 upsert while the meter factory fails, 0 request, 1 request+rewrite, 2 upsert, 3 remove, 4 cookie request + rewrite, 5 cookie request, 6 request while one server is rated bad, 7 advance the clock
	url    int
	weight int // -1 = no option
}

func alphabet(v variant, tier string) ([]string, []opDesc) {
	urls := urlsFor(tier)
	names := []string{"Req", "ReqRewriting"}
	descs := []opDesc{{0, 0, 0}, {1, 0, 0}}
	if v.sticky {
		for _, u := range []int{0, 1, 4} {
			names = append(names, fmt.Sprintf("ReqCookie(u%d)Rewriting", u), fmt.Sprintf("ReqCookie(u%d)", u))
			descs = append(descs, opDesc{4, u, 0}, opDesc{5, u, 0})
		}
	}
	if v.rebalancer {
		// let the rebalancer actually adjust weights: a request while one member is rated as failing
		for _, u := range []int{0, 1} {
			names = append(names, fmt.Sprintf("ReqWhileBad(u%d)", u))
			descs = append(descs, opDesc{6, u, 0})
		}
		names = append(names, "Advance(2s)")
		descs = append(descs, opDesc{7, 0, 0})
		// an add that fails half-way (the meter factory refuses): nothing may change
		for _, u := range []int{1, 3} {
			names = append(names, fmt.Sprintf("UpsertWhileMeterFactoryFails(u%d)", u))
			descs = append(descs, opDesc{8, u, -1})
		}
	}
	// an administration call that is refused (negative weight): nothing may change, whether or not the server is a member
	for _, u := range []int{0, 1} {
		names = append(names, fmt.Sprintf("UpsertRefused(u%d,w=-1)", u))
		descs = append(descs, opDesc{9, u, -1})
	}
	// ... also when the refused option follows one that would have been accepted (drain, then an invalid weight)
	names = append(names, "UpsertRefused(u0,w=0,w=-1)")
	descs = append(descs, opDesc{9, 0, 0})
	for _, u := range urls {
		names = append(names, fmt.Sprintf("Upsert(u%d)", u))
		descs = append(descs, opDesc{2, u, -1})
	}
	for _, u := range urls {
		names = append(names, fmt.Sprintf("Remove(u%d)", u))
		descs = append(descs, opDesc{3, u, 0})
	}
	for _, w := range []int{0, 2} {
		for _, u := range urls {
			if (u >= 4 && u <= 5 || u == 8) && w == 2 && tier != "thorough" {
				continue
			}
			names = append(names, fmt.Sprintf("Upsert(u%d,w=%d)", u, w))
			descs = append(descs, opDesc{2, u, w})
		}
	}
	return names, descs
}

func model(v variant, tier string, depth int) *lib.Model[*sys] {
	names, descs := alphabet(v, tier)
	m := &lib.Model[*sys]{Name: "pool/" + v.String(), Ops: names, MaxDepth: depth, Deadline: lib.Deadline}
	m.New = func() *sys { return newSys(v) }
	m.Apply = func(s *sys, op int) string {
		d := descs[op]
		u := mustURL(urlAlphabet[d.url])
		switch d.kind {
		case 0, 1:
			ok, seen, code := s.request(d.kind == 1, "")
			return fmt.Sprintf("%v/%s/%d", ok, seen, code)
		case 4, 5:
			ok, seen, code := s.request(d.kind == 4, u.String())
			return fmt.Sprintf("%v/%s/%d", ok, seen, code)
		case 6:
			for id, mt := range s.meters {
				mt.rating, mt.ready = 0, true
				if id == identity(u) {
					mt.rating = 1
				}
			}
			ok, seen, code := s.request(false, "")
			return fmt.Sprintf("%v/%s/%d", ok, seen, code)
		case 7:
			clock.Advance(2 * time.Second)
			return ""
		case 8:
			known := s.ref.find(identity(u)) >= 0
			s.meterFails = true
			s.upserting = identity(u)
			err := s.front().UpsertServer(u)
			u = reuse(u)
			s.upserting = ""
			s.meterFails = false
			if err == nil {
				s.ref.upsert(u, -1) // a re-add of a known server needs no new meter and succeeds
			}
			return fmt.Sprintf("%v/known=%v", err, known)
		case 9:
			known := s.ref.find(identity(u)) >= 0
			s.upserting = identity(u)
			opts := []roundrobin.ServerOption{roundrobin.Weight(-1)}
			if d.weight >= 0 {
				opts = []roundrobin.ServerOption{roundrobin.Weight(d.weight), roundrobin.Weight(-1)}
			}
			err := s.front().UpsertServer(u, opts...)
			u = reuse(u)
			s.upserting = ""
			if err == nil {
				return fmt.Sprintf("ACCEPTED/known=%v", known)
			}
			return fmt.Sprintf("refused/known=%v", known)
		case 2:
			var opts []roundrobin.ServerOption
			if d.weight >= 0 {
				opts = append(opts, roundrobin.Weight(d.weight))
			}
			s.upserting = identity(u)
			err := s.front().UpsertServer(u, opts...)
			u = reuse(u)
			s.upserting = ""
			if err == nil {
				s.ref.upsert(u, d.weight)
			}
			return fmt.Sprint(err)
		default:
			err := s.front().RemoveServer(u)
			u = reuse(u)
			known := s.ref.find(identity(u)) >= 0
			if err == nil {
				s.ref.remove(u)
				delete(s.meters, identity(u))
			}
			return fmt.Sprintf("%v/known=%v", err, known)
		}
	}
	// pool size is capped at 3 distinct identities
	m.Enabled = func(s *sys, op int) bool {
		d := descs[op]
		if d.kind == 2 && len(s.ref.members) >= 3 && s.ref.find(identity(mustURL(urlAlphabet[d.url]))) < 0 {
			return false
		}
		return true
	}
	dumper := lib.Dumper{}
	m.Key = func(s *sys) string {
		if s.v.rebalancer {
			d2 := lib.Dumper{Now: clock.Now().UTC(), Relative: true}
			return d2.Dump(s.rb) // reaches the wrapped balancer through rb.next
		}
		return dumper.Dump(s.rr)
	}
	m.Check = func(s *sys, hist []int, obs []string, rep *lib.Report) {
		check(s, m, descs, hist, obs, rep)
	}
	m.OnTransition = func(s *sys, hist []int, obs []string, rep *lib.Report) {
		checkLast(s, m, descs, hist, obs, rep)
	}
	return m
}

func listStrings(us []*url.URL) []string {
	out := make([]string, len(us))
	for i, u := range us {
		out[i] = u.String()
	}
	sort.Strings(out)
	return out
}

func check(s *sys, m *lib.Model[*sys], descs []opDesc, hist []int, obs []string, rep *lib.Report) {
	prop := "C02"
	what := func() map[string]any {
		return map[string]any{"engine": "xstate", "part": "c02", "variant": s.v.String(), "rebalancer": s.v.rebalancer, "sticky": s.v.sticky,
			"ops": m.OpNames(hist), "observations": obs, "reference_pool": fmt.Sprint(s.ref.members)}
	}
	vk := s.v.String()
	// (1) the pool is exactly the reference, including the stored URL strings
	want := make([]string, len(s.ref.members))
	for i, mb := range s.ref.members {
		want[i] = mb.stored
	}
	sort.Strings(want)
	fronts := []struct {
		name string
		get  func() []*url.URL
	}{{"front", s.front().Servers}}
	if s.v.rebalancer {
		fronts = append(fronts, struct {
			name string
			get  func() []*url.URL
		}{"wrapped-balancer", s.rr.Servers})
	}
	for _, f := range fronts {
		got := listStrings(f.get())
		if strings.Join(got, " ") != strings.Join(want, " ") {
			kind := "membership-differs"
			if len(got) == len(want) {
				kind = "stored-url-altered"
				for i := range got {
					if identity(mustURL(got[i])) != identity(mustURL(want[i])) {
						kind = "membership-differs"
					}
				}
			}
			rep.Violate(fmt.Sprintf("%s:%s:%s:%s", prop, kind, f.name, vk), fmt.Sprintf("Servers() = %v, calls so far define %v", got, want), what())
			return
		}
	}
	// (2) weights
	for _, mb := range s.ref.members {
		w, ok := s.rr.ServerWeight(mustURL(mb.stored)) // the rebalancer exposes weights through the balancer it wraps
		if s.v.rebalancer && ok && (w == 0) == (mb.weight == 0) {
			continue // the rebalancer may scale positive weights; a drained (0) server stays drained, a live one stays live
		}
		if !ok || w != mb.weight {
			rep.Violate(prop+":weight-differs:"+vk, fmt.Sprintf("ServerWeight(%s) = %d,%v; calls so far define %d", mb.stored, w, ok, mb.weight), what())
			return
		}
	}
	for _, us := range urlAlphabet {
		if s.ref.find(identity(mustURL(us))) < 0 {
			if _, ok := s.rr.ServerWeight(mustURL(us)); ok {
				rep.Violate(prop+":weight-of-non-member:"+vk, "ServerWeight knows "+us+" which is not in the pool", what())
				return
			}
		}
	}
	// (3) one full rotation from this state selects exactly the positive-weight members (the
	// rebalancer is kept from re-weighting during the rotation: its meters report "not ready")
	for _, mt := range s.meters {
		mt.ready = false
	}
	sum, g := 0, 0
	for _, mb := range s.ref.members {
		w := mb.weight
		if s.v.rebalancer {
			if ew, ok := s.rr.ServerWeight(mustURL(mb.stored)); ok && (ew == 0) == (mb.weight == 0) {
				w = ew // rotation length follows the effective weights
			}
		}
		sum += w
		g = gcd(g, w)
	}
	if sum == 0 {
		rep.Count("states_with_unservable_pool")
		for k := 0; k < 3; k++ {
			served, seen, code := s.request(false, "")
			if served || code < 400 {
				rep.Violate(prop+":unservable-pool-served:"+vk, fmt.Sprintf("request %d on an empty/all-zero pool %v: handler invoked=%v (URL %s), status %d", k+1, s.ref.members, served, seen, code), what())
				return
			}
		}
		return
	}
	rep.Count("states_with_servable_pool")
	W := sum / g
	hit := map[string]int{}
	for k := 0; k < W; k++ {
		served, seen, code := s.request(false, "")
		if !served {
			rep.Violate(prop+":servable-pool-refused:"+vk, fmt.Sprintf("request on servable pool %v was not forwarded (status %d)", s.ref.members, code), what())
			return
		}
		i := s.ref.find(identity(mustURL(seen)))
		if i < 0 {
			rep.Violate(prop+":routed-outside-pool:"+vk, fmt.Sprintf("request routed to %s, pool is %v", seen, s.ref.members), what())
			return
		}
		if seen != s.ref.members[i].stored {
			rep.Violate(prop+":routed-to-altered-url:"+vk, fmt.Sprintf("request routed to %s, the member was added as %s", seen, s.ref.members[i].stored), what())
			return
		}
		hit[s.ref.members[i].id]++
	}
	for _, mb := range s.ref.members {
		if mb.weight > 0 && hit[mb.id] == 0 {
			rep.Violate(prop+":member-not-selected-in-rotation:"+vk, fmt.Sprintf("member %s (weight %d) not selected within one rotation of %d; pool %v", mb.id, mb.weight, W, s.ref.members), what())
			return
		}
		if mb.weight == 0 && hit[mb.id] > 0 {
			rep.Violate(prop+":zero-weight-selected:"+vk, fmt.Sprintf("zero-weight member %s selected; pool %v", mb.id, s.ref.members), what())
			return
		}
	}
	if len(s.ref.members) > 1 {
		rep.Count("rotations_over_several_members")
	}
	// (4) through the rebalancer, SLOW traffic: all meters ready and healthy, one request per back-off interval
	// (every request finds the adjustment timer expired). Whatever the rebalancer does to its weights meanwhile,
	// every positive-weight member must be selected within a bounded number of requests - six adjustments to
	// converge, then two rotations.
	if s.v.rebalancer && len(s.ref.members) > 1 {
		for _, mt := range s.meters {
			mt.ready, mt.rating = true, 0
		}
		hit := map[string]int{}
		n := 8 + 2*W
		for k := 0; k < n; k++ {
			clock.Advance(time.Second + time.Millisecond)
			served, seen, _ := s.request(false, "")
			if served {
				if i := s.ref.find(identity(mustURL(seen))); i >= 0 {
					hit[s.ref.members[i].id]++
				}
			}
		}
		rep.Count("slow_traffic_rotations")
		for _, mb := range s.ref.members {
			if mb.weight > 0 && hit[mb.id] == 0 {
				rep.Violate(prop+":member-starved-under-slow-traffic:"+vk, fmt.Sprintf("healthy pool %v, one request per back-off interval: member %s (weight %d) was not selected in %d requests (hits %v)", s.ref.members, mb.id, mb.weight, n, hit), what())
				return
			}
		}
	}
}

// checkLast: the contract of the operation that has just been applied.
func checkLast(s *sys, m *lib.Model[*sys], descs []opDesc, hist []int, obs []string, rep *lib.Report) {
	prop := "C02"
	what := func() map[string]any {
		return map[string]any{"engine": "xstate", "part": "c02", "variant": s.v.String(), "rebalancer": s.v.rebalancer, "sticky": s.v.sticky,
			"ops": m.OpNames(hist), "observations": obs, "reference_pool": fmt.Sprint(s.ref.members)}
	}
	vk := s.v.String()
	// (0) the last operation's own contract
	if n := len(hist); n > 0 {
		d := descs[hist[n-1]]
		o := obs[n-1]
		switch d.kind {
		case 0, 1, 4, 5, 6:
			parts := strings.SplitN(o, "/", 2)
			served := parts[0] == "true"
			seen := parts[1][:strings.LastIndex(parts[1], "/")]
			servable := false
			for _, mb := range s.ref.members {
				servable = servable || mb.weight > 0
			}
			if served {
				rep.Count("requests_forwarded")
				i := s.ref.find(identity(mustURL(seen)))
				if i < 0 {
					rep.Violate(prop+":routed-outside-pool:"+vk, fmt.Sprintf("request routed to %s, pool is %v", seen, s.ref.members), what())
					return
				}
				if d.kind < 4 && s.ref.members[i].weight == 0 {
					rep.Violate(prop+":zero-weight-selected:"+vk, fmt.Sprintf("request routed to zero-weight member %s, pool is %v", seen, s.ref.members), what())
					return
				}
			} else if servable {
				rep.Violate(prop+":servable-pool-refused:"+vk, fmt.Sprintf("request on servable pool %v was not forwarded (%s)", s.ref.members, o), what())
				return
			}
		case 8:
			if strings.HasSuffix(o, "known=false") && strings.HasPrefix(o, "<nil>") {
				rep.Violate(prop+":failed-add-reported-success:"+vk, "UpsertServer succeeded although the meter for the new server could not be built", what())
			}
			rep.Count("failing_adds")
		case 9:
			if strings.HasPrefix(o, "ACCEPTED") {
				rep.Violate(prop+":invalid-weight-accepted:"+vk, "UpsertServer(u, Weight(-1)) reported success", what())
			}
			rep.Count("refused_upserts")
		case 3:
			if strings.HasSuffix(o, "known=false") && strings.HasPrefix(o, "<nil>") {
				rep.Violate(prop+":remove-unknown-succeeded:"+vk, "RemoveServer of a server that is not in the pool returned no error", what())
			}
			if strings.HasSuffix(o, "known=true") && !strings.HasPrefix(o, "<nil>") {
				rep.Violate(prop+":remove-member-failed:"+vk, "RemoveServer of a pool member failed: "+o, what())
			}
			if strings.HasSuffix(o, "known=false") {
				rep.Count("removes_of_unknown_server")
			}
		case 2:
			if o != "<nil>" {
				rep.Violate(prop+":upsert-failed:"+vk, "UpsertServer failed: "+o, what())
			}
		}
	}
}

func gcd(a, b int) int {
	for b != 0 {
		a, b = b, a%b
	}
	return a
}

var variants = []variant{{false, false}, {true, false}, {false, true}, {true, true}}

// Run: sharded by (variant, first operation).
func Run(tier string, sh lib.Shard, rep *lib.Report) {
	depth := 5
	if tier == "thorough" {
		depth = 6
	}
	rep.Bounds["history_depth"] = depth
	rep.Bounds["pool_size_max"] = 3
	rep.Bounds["url_alphabet"] = urlAlphabet
	rep.Rule = "BFS over all histories (depth-bounded, exact state key = full reflective dump incl. iterator and rebalancer shadow records) of Upsert/Remove/Request on RoundRobin and Rebalancer(RoundRobin), with and without sticky sessions, URL alphabet with identity collisions; in every state Servers()/ServerWeight() equal an ordered-map reference and one full rotation hits exactly the positive-weight members; non-trivial = states with a servable pool"
	rep.Require("states_with_servable_pool", "states_with_unservable_pool", "removes_of_unknown_server", "rotations_over_several_members")
	for _, v := range variants {
		m := model(v, tier, depth)
		m.Shard, m.ShardLevel = sh, 2
		r := m.Run(rep)
		rep.Sample(4, map[string]any{"model": m.Name, "result": r.Describe()})
	}
	rep.Nontrivial = rep.Counters["states_with_servable_pool"]
}

// Replay re-executes one recorded history.
func Replay(rp map[string]any) (bool, string) {
	v := variant{rp["rebalancer"] == true, rp["sticky"] == true}
	var res string
	for _, tier := range []string{"quick", "thorough"} {
		m := model(v, tier, 0)
		hist, err := m.ParseOps(rp["ops"])
		if err != nil {
			res = err.Error()
			continue
		}
		return m.ReplayHistory(hist, lib.NewReport("C02", "replay"))
	}
	return false, res
}

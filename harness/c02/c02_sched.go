//go:build verif

package c02

import (
	"time"

	"fmt"
	"github.com/vulcand/oxy/v2/internal/holsterv4/clock"
	"net/http"
	"net/http/httptest"
	"net/url"
	"strings"

	"github.com/vulcand/oxy/v2/internal/verif/vrt"
	"github.com/vulcand/oxy/v2/roundrobin"
	"github.com/vulcand/oxy/v2/zverif/lib"
	"github.com/vulcand/oxy/v2/zverif/sched"
)

// Administration racing with requests. Pool starts as {a, b}; the administrator
// removes a and adds c while requests are in flight. Interval oracle: a request may
// be routed to S only if S was a member at some instant between the request's start
// and its selection.
type race struct {
	seq         int
	reqStart    [4]int
	selAt       [4]int
	selURL      [4]string
	code        [4]int
	removeDone  int
	upsertStart int
	inspected   [4]string
	ninspected  int
}

//go:norace
func (r *race) tick() int { r.seq++; return r.seq }

//go:norace
func (r *race) setStart(i int) { r.reqStart[i] = r.tick() }

//go:norace
func (r *race) setSel(i int, u string) { r.selAt[i] = r.tick(); r.selURL[i] = u }

//go:norace
func (r *race) setCode(i, c int) { r.code[i] = c }

//go:norace
func (r *race) markRemoveDone() { r.removeDone = r.tick() }

//go:norace
func (r *race) markUpsertStart() { r.upsertStart = r.tick() }

//go:norace
func (r *race) inspect(s string) { r.inspected[r.ninspected] = s; r.ninspected++ }

func raceScenario(rebalancer, inspector bool, nreq, bound int) *sched.Scenario {
	return raceScenarioM(rebalancer, inspector, false, nreq, bound)
}

// adjusting: the rebalancer's meters are scripted, ready and rate server a as failing, so that
// every completing request makes the rebalancer re-weight the pool while administration runs.
func raceScenarioM(rebalancer, inspector, adjusting bool, nreq, bound int) *sched.Scenario {
	name := fmt.Sprintf("admin-race/rebalancer=%v/inspector=%v/requests=%d/bound=%d", rebalancer, inspector, nreq, bound)
	if adjusting {
		name += "/adjusting"
	}
	sc := &sched.Scenario{Name: name, Bound: bound, Info: map[string]any{"rebalancer": rebalancer, "inspector": inspector}}
	ua, ub, uc := mustURL("http://a:80/x"), mustURL("http://b:80/x"), mustURL("http://c:80/x")
	sc.New = func() *sched.Instance {
		clock.VerifInstall(clock.Date(2012, 3, 4, 5, 6, 7, 0, clock.UTC), nil)
		w := &race{}
		cur := -1 // index of the request being served by the thread that runs (one request thread only)
		h := http.HandlerFunc(func(rw http.ResponseWriter, r *http.Request) {
			w.setSel(cur, r.URL.String())
			rw.WriteHeader(200)
		})
		rr, err := roundrobin.New(h)
		if err != nil {
			panic(err)
		}
		var front interface {
			ServeHTTP(http.ResponseWriter, *http.Request)
			Servers() []*url.URL
			UpsertServer(*url.URL, ...roundrobin.ServerOption) error
			RemoveServer(*url.URL) error
		} = rr
		if rebalancer {
			var opts []roundrobin.RebalancerOption
			upserting := ""
			if adjusting {
				opts = append(opts, roundrobin.RebalancerBackoff(time.Second), roundrobin.RebalancerMeter(func() (roundrobin.Meter, error) {
					m := &scriptMeter{ready: true}
					if upserting == identity(ua) {
						m.rating = 1
					}
					return m, nil
				}))
			}
			rb, err := roundrobin.NewRebalancer(rr, opts...)
			if err != nil {
				panic(err)
			}
			front = rb
			upserting = identity(ua)
			front.UpsertServer(ua)
			upserting = ""
		}
		front.UpsertServer(ua)
		front.UpsertServer(ub)
		inst := &sched.Instance{}
		inst.Names = append(inst.Names, "requests")
		inst.Bodies = append(inst.Bodies, func() {
			for i := 0; i < nreq; i++ {
				cur = i
				w.setStart(i)
				rec := httptest.NewRecorder()
				front.ServeHTTP(rec, httptest.NewRequest("GET", "http://client/", nil))
				w.setCode(i, rec.Code)
			}
		})
		inst.Names = append(inst.Names, "admin")
		inst.Bodies = append(inst.Bodies, func() {
			if err := front.RemoveServer(ua); err != nil {
				vrt.Fail("C02:admin-race:remove-failed", err.Error())
			}
			w.markRemoveDone()
			w.markUpsertStart()
			if err := front.UpsertServer(uc); err != nil {
				vrt.Fail("C02:admin-race:upsert-failed", err.Error())
			}
		})
		if inspector {
			inst.Names = append(inst.Names, "inspector")
			inst.Bodies = append(inst.Bodies, func() {
				for k := 0; k < 2; k++ {
					w.inspect(strings.Join(listStrings(front.Servers()), ","))
					rr.ServerWeight(ub)
				}
			})
		}
		inst.Check = func(x *vrt.Exec) []vrt.Failure {
			var f []vrt.Failure
			for i := 0; i < nreq; i++ {
				switch {
				case w.code[i] != 200 || w.selAt[i] == 0:
					f = append(f, vrt.Failure{Key: "C02:admin-race:request-not-served", Detail: fmt.Sprintf("request %d got status %d although b was a member throughout", i, w.code[i])})
				case w.selURL[i] == ua.String():
					if w.reqStart[i] > w.removeDone && w.removeDone != 0 {
						f = append(f, vrt.Failure{Key: "C02:admin-race:removed-server-selected", Detail: fmt.Sprintf("request %d started after RemoveServer(a) had returned and was still routed to a", i)})
					}
				case w.selURL[i] == uc.String():
					if w.upsertStart == 0 || w.selAt[i] < w.upsertStart {
						f = append(f, vrt.Failure{Key: "C02:admin-race:not-yet-added-server-selected", Detail: fmt.Sprintf("request %d routed to c before UpsertServer(c) was called", i)})
					}
				case w.selURL[i] == ub.String():
				default:
					f = append(f, vrt.Failure{Key: "C02:admin-race:routed-outside-pool", Detail: "request routed to " + w.selURL[i]})
				}
			}
			for k := 0; k < w.ninspected; k++ {
				switch w.inspected[k] {
				case "http://a:80/x,http://b:80/x", "http://b:80/x", "http://b:80/x,http://c:80/x":
				default:
					f = append(f, vrt.Failure{Key: "C02:admin-race:inconsistent-servers-snapshot", Detail: "Servers() returned " + w.inspected[k]})
				}
			}
			if got := strings.Join(listStrings(front.Servers()), ","); got != "http://b:80/x,http://c:80/x" {
				f = append(f, vrt.Failure{Key: "C02:admin-race:final-pool-differs", Detail: "after Remove(a);Upsert(c) the pool is " + got})
			}
			return f
		}
		inst.Outcome = func() string {
			var sb strings.Builder
			for i := 0; i < nreq; i++ {
				sb.WriteString(w.selURL[i][7:8])
			}
			for k := 0; k < w.ninspected; k++ {
				sb.WriteString("|" + w.inspected[k])
			}
			return sb.String()
		}
		return inst
	}
	return sc
}

func Scenarios(tier string) []*sched.Scenario {
	if tier == "thorough" {
		return []*sched.Scenario{
			raceScenario(false, false, 3, -1), raceScenario(false, true, 2, -1),
			raceScenario(true, false, 2, 4), raceScenario(true, true, 2, 3),
			raceScenarioM(true, false, true, 2, 3), raceScenarioM(true, true, true, 2, 2),
		}
	}
	return []*sched.Scenario{
		raceScenario(false, false, 2, -1), raceScenario(false, true, 2, -1),
		raceScenario(true, false, 2, 3), raceScenario(true, true, 2, 2),
		raceScenarioM(true, false, true, 2, 2),
	}
}

func RunSched(tier string, sh lib.Shard, rep *lib.Report) {
	scs := Scenarios(tier)
	rep.Rule = "stateless DFS over interleavings of a request thread, an administrator (Remove(a);Upsert(c)) and an optional inspector on the real balancer / rebalancer; all interleavings for the balancer, preemption-bounded for the rebalancer; interval oracle on membership; race detector on every schedule; non-trivial = schedule with a preemption"
	rep.Require("executions_with_preemption")
	var names []string
	for _, sc := range scs {
		names = append(names, sc.Name)
		e := sched.NewExplorer(rep, sh, "c02s")
		st := e.Explore(sc)
		rep.Nontrivial += st.WithPreemption
		if !st.Complete {
			rep.Exhaustive = false
		}
	}
	rep.Bounds["scenarios"] = names
}

func Find(prop, name string) *sched.Scenario {
	for _, tier := range []string{"quick", "thorough"} {
		for _, sc := range Scenarios(tier) {
			if sc.Name == name {
				return sc
			}
		}
	}
	return nil
}

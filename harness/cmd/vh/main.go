// vh is the worker binary for the explicit-state (E2) and enumeration (E3)
// checks. It runs one part of one check on one shard and writes a Report.
package main

import (
	"encoding/json"
	"flag"
	"fmt"
	"os"
	"sort"
	"time"

	"github.com/vulcand/oxy/v2/zverif/lib"
)

type partFn func(tier string, sh lib.Shard, rep *lib.Report)

var parts = map[string]partFn{}

// replays re-execute a recorded counterexample on the current tree without any
// search engine: returns whether the oracle is still violated, and what was seen.
var replays = map[string]func(rp map[string]any) (bool, string){}

func doReplay(path string) {
	b, err := os.ReadFile(path)
	if err != nil {
		fmt.Println(err)
		os.Exit(2)
	}
	var rp map[string]any
	if err := json.Unmarshal(b, &rp); err != nil {
		fmt.Println(err)
		os.Exit(2)
	}
	part, _ := rp["part"].(string)
	fn, ok := replays[part]
	if !ok {
		fmt.Println("no replay function for part", part)
		os.Exit(2)
	}
	bad, obs := fn(rp)
	fmt.Println(obs)
	if bad {
		os.Exit(1)
	}
	os.Exit(0)
}

func main() {
	if len(os.Args) < 2 {
		names := make([]string, 0, len(parts))
		for n := range parts {
			names = append(names, n)
		}
		sort.Strings(names)
		fmt.Println("usage: vh <part> [-tier quick|thorough] [-shard i/n] [-out file]; parts:", names)
		os.Exit(2)
	}
	name := os.Args[1]
	if name == "replay" && len(os.Args) > 2 {
		doReplay(os.Args[2])
	}
	fs := flag.NewFlagSet(name, flag.ExitOnError)
	tier := fs.String("tier", "quick", "quick|thorough")
	shard := fs.String("shard", "", "i/n")
	out := fs.String("out", "-", "report file")
	prop := fs.String("property", "", "property id the report is for")
	budget := fs.Duration("budget", 0, "internal time budget (0 = none)")
	fs.Parse(os.Args[2:])
	fn, ok := parts[name]
	if !ok {
		fmt.Fprintln(os.Stderr, "unknown part", name)
		os.Exit(2)
	}
	rep := lib.NewReport(*prop, name)
	rep.Shard = *shard
	if *budget > 0 {
		lib.Deadline = time.Now().Add(*budget)
	}
	fn(*tier, lib.ParseShard(*shard), rep)
	rep.Write(*out)
}

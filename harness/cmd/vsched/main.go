//go:build verif

// vsched is the worker binary of the scheduler engine (E1). It must be built with
// the overlay produced by cmd/mkoverlay and -tags verif (optionally -race).
package main

import (
	"encoding/json"
	"flag"
	"fmt"
	"os"
	"runtime"
	"sort"
	"time"

	"github.com/vulcand/oxy/v2/zverif/lib"
	"github.com/vulcand/oxy/v2/zverif/sched"
)

type partFn func(tier string, sh lib.Shard, rep *lib.Report)

var parts = map[string]partFn{}

// finders map a part to its scenario lookup (for replay).
var finders = map[string]func(prop, name string) *sched.Scenario{}

func main() {
	runtime.GOMAXPROCS(1) // the hand-off protocol relies on cooperative scheduling of the harness threads
	if len(os.Args) < 2 {
		names := make([]string, 0, len(parts))
		for n := range parts {
			names = append(names, n)
		}
		sort.Strings(names)
		fmt.Println("usage: vsched <part>|replay <file> ...; parts:", names)
		os.Exit(2)
	}
	name := os.Args[1]
	if name == "replay" && len(os.Args) > 2 {
		doReplay(os.Args[2])
	}
	fs := flag.NewFlagSet(name, flag.ExitOnError)
	tier := fs.String("tier", "quick", "quick|thorough")
	shard := fs.String("shard", "", "i/n")
	out := fs.String("out", "-", "report file")
	prop := fs.String("property", "", "property id the report is for")
	budget := fs.Duration("budget", 0, "internal time budget (0 = none)")
	fs.Parse(os.Args[2:])
	fn, ok := parts[name]
	if !ok {
		fmt.Fprintln(os.Stderr, "unknown part", name)
		os.Exit(2)
	}
	rep := lib.NewReport(*prop, name)
	rep.Shard = *shard
	if *budget > 0 {
		lib.Deadline = time.Now().Add(*budget)
	}
	fn(*tier, lib.ParseShard(*shard), rep)
	rep.Write(*out)
}

func doReplay(path string) {
	b, err := os.ReadFile(path)
	if err != nil {
		fmt.Println(err)
		os.Exit(2)
	}
	var rp struct {
		Property string `json:"property"`
		Part     string `json:"part"`
		Scenario string `json:"scenario"`
		Schedule []int  `json:"schedule"`
	}
	if err := json.Unmarshal(b, &rp); err != nil {
		fmt.Println(err)
		os.Exit(2)
	}
	if fn, ok := replays[rp.Part]; ok {
		var m map[string]any
		json.Unmarshal(b, &m)
		bad, obs := fn(m)
		fmt.Println(obs)
		if bad {
			os.Exit(1)
		}
		os.Exit(0)
	}
	find, ok := finders[rp.Part]
	if !ok {
		fmt.Println("no scenario finder for part", rp.Part)
		os.Exit(2)
	}
	sc := find(rp.Property, rp.Scenario)
	if sc == nil {
		fmt.Println("unknown scenario", rp.Scenario)
		os.Exit(2)
	}
	rep := lib.NewReport(rp.Property, rp.Part)
	e := sched.NewExplorer(rep, lib.Shard{I: 0, N: 1}, rp.Part)
	bad, obs := e.Replay(sc, rp.Schedule)
	fmt.Println(obs)
	if bad {
		os.Exit(1)
	}
	os.Exit(0)
}

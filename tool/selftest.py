"""Detection demonstration: every mutant in /verif/mutants/<Cnn>-<name>.diff is applied to a
scratch copy of /repo (never to /repo), the pinned suite is run on the copy (must stay green,
otherwise the mutant is not a fair demonstration) and the property's quick check must report a
VIOLATION. Results: /verif/evidence/selftest.json.

  vcheck selftest            all mutants
  vcheck selftest C04        mutants of one property
  vcheck selftest C04-foo    one mutant
  VERIF_SELFTEST_SKIP_SUITE=1 skips the pinned-suite run (faster while developing)
"""
import glob
import json
import os
import shutil
import subprocess
import sys
import tempfile
import time

VERIF = os.path.dirname(os.path.dirname(os.path.abspath(__file__)))


def main(args, vcheck):
    pats = args or [""]
    muts = sorted(p for p in glob.glob(os.path.join(VERIF, "mutants", "*.diff"))
                  if any(os.path.basename(p).startswith(a) for a in pats))
    results = []
    resfile = os.path.join(VERIF, "evidence", "selftest.json")
    old = {}
    if os.path.exists(resfile):
        old = {r["mutant"]: r for r in json.load(open(resfile)).get("results", [])}
    ok_all = True
    for mp in muts:
        name = os.path.basename(mp)[:-5]
        prop = name.split("-")[0]
        t0 = time.time()
        scratch = tempfile.mkdtemp(prefix="vmut-")
        try:
            dst = os.path.join(scratch, "repo")
            shutil.copytree("/repo", dst, ignore=shutil.ignore_patterns(".git"))
            r = subprocess.run(["patch", "-p1", "-s", "-i", mp], cwd=dst, capture_output=True, text=True)
            if r.returncode != 0:
                results.append(dict(mutant=name, property=prop, status="PATCH-FAILED", detail=r.stdout + r.stderr))
                ok_all = False
                print("%-40s PATCH-FAILED %s" % (name, (r.stdout + r.stderr).strip()[:200]))
                continue
            suite = "skipped"
            if not os.environ.get("VERIF_SELFTEST_SKIP_SUITE"):
                r = subprocess.run([os.path.join(VERIF, "tool", "runsuite.sh"), dst], capture_output=True, text=True)
                suite = r.stdout.strip().splitlines()[0] if r.stdout.strip() else "no output"
                if r.returncode != 0:
                    results.append(dict(mutant=name, property=prop, status="SUITE-RED", suite=r.stdout[-800:]))
                    print("%-40s SUITE-RED (unfair mutant) %s" % (name, suite))
                    ok_all = False
                    continue
            env = dict(os.environ, VERIF_REPO=dst, VERIF_NO_EVIDENCE="1")
            r = subprocess.run([os.path.join(VERIF, "vcheck"), prop, "quick"], env=env, capture_output=True, text=True)
            viol = [l for l in r.stdout.splitlines() if l.startswith("VIOLATION")]
            status = "DETECTED" if r.returncode == 1 and viol else "MISSED(rc=%d)" % r.returncode
            if status != "DETECTED":
                ok_all = False
            results.append(dict(mutant=name, property=prop, status=status, suite=suite, violations=[v[:300] for v in viol[:5]],
                                wall_s=round(time.time() - t0, 1), tail=r.stdout[-600:] if status != "DETECTED" else ""))
            print("%-40s %s  suite: %s  (%.0fs) %s" % (name, status, suite, time.time() - t0, viol[0][:160] if viol else ""), flush=True)
        finally:
            shutil.rmtree(scratch, ignore_errors=True)
    for r in results:
        old[r["mutant"]] = r
    json.dump(dict(results=[old[k] for k in sorted(old)]), open(resfile, "w"), indent=1)
    sys.exit(0 if ok_all else 1)

package c03

import (
	"fmt"
	"math/big"
	"net/http"
	"strings"
	"time"

	"github.com/vulcand/oxy/v2/internal/holsterv4/clock"
	"github.com/vulcand/oxy/v2/ratelimit"
	"github.com/vulcand/oxy/v2/zverif/lib"
)

// A source whose rates are REBALANCED between periods while it is being tracked: the ExtractRates option resolves to
// {1s: 3/3, 10s: 5/5} and, from the operation Rebalance on, to {1s: 1/1, 10s: 7/7} (a fresh set on every request) -
// the same periods, the same total of averages and of bursts, allowance moved from the short period to the long
// one. From that instant the 1s rate is 1/1 and its bound must hold.

var rebBefore = []rateSpec{{time.Second, 3, 3}, {10 * time.Second, 5, 5}}
var rebAfter = []rateSpec{{time.Second, 1, 1}, {10 * time.Second, 7, 7}}

type rsys struct {
	tl         *ratelimit.TokenLimiter
	served     int
	rebalanced bool
	debt       *big.Rat // leaky-bucket debt of the 1s rate of the new set, counted from Rebalance
	lastT      time.Time
}

func newRsys() *rsys {
	clock.Freeze(base)
	s := &rsys{debt: new(big.Rat)}
	defaults := ratelimit.NewRateSet()
	defaults.Add(time.Hour, 1, 1)
	tl, err := ratelimit.New(http.HandlerFunc(func(w http.ResponseWriter, r *http.Request) {
		s.served++
		w.WriteHeader(200)
	}), extractor(), defaults, ratelimit.ExtractRates(ratelimit.RateExtractorFunc(func(*http.Request) (*ratelimit.RateSet, error) {
		rs := ratelimit.NewRateSet()
		specs := rebBefore
		if s.rebalanced {
			specs = rebAfter
		}
		for _, r := range specs {
			rs.Add(r.period, r.average, r.burst)
		}
		return rs, nil
	})))
	if err != nil {
		panic(err)
	}
	s.tl = tl
	return s
}

func (s *rsys) leak() {
	now := clock.Now()
	if s.rebalanced && !s.lastT.IsZero() {
		r := rebAfter[0]
		l := new(big.Rat).SetFrac(new(big.Int).Mul(big.NewInt(int64(now.Sub(s.lastT))), big.NewInt(r.average)), big.NewInt(int64(r.period)))
		s.debt.Sub(s.debt, l)
		if s.debt.Sign() < 0 {
			s.debt.SetInt64(0)
		}
	}
	s.lastT = now
}

func rebalancedModel(depth int) *lib.Model[*rsys] {
	type od struct {
		kind   int // 0 request, 1 advance, 2 rebalance
		amount int64
		d      time.Duration
	}
	names := []string{"Req(1)", "Req(3)", "Rebalance", "Advance(500ms)", "Advance(1s)", "Advance(10s)"}
	descs := []od{{0, 1, 0}, {0, 3, 0}, {2, 0, 0}, {1, 0, 500 * time.Millisecond}, {1, 0, time.Second}, {1, 0, 10 * time.Second}}
	m := &lib.Model[*rsys]{Name: "limiter/rates-rebalanced-between-periods", Ops: names, MaxDepth: depth, Deadline: lib.Deadline}
	m.New = newRsys
	m.Apply = func(s *rsys, op int) string {
		d := descs[op]
		switch d.kind {
		case 1:
			clock.Advance(d.d)
			return ""
		case 2:
			s.leak()
			s.rebalanced = true
			return "rebalanced"
		}
		o := doReq(s.tl, &s.served, "a", d.amount)
		if o.served && s.rebalanced {
			s.leak()
			s.debt.Add(s.debt, new(big.Rat).SetInt64(d.amount))
			if s.debt.Cmp(new(big.Rat).SetInt64(rebAfter[0].burst+1)) > 0 {
				return o.String() + "/BOUND-EXCEEDED 1s-rate debt=" + s.debt.FloatString(3)
			}
		}
		return o.String()
	}
	m.Enabled = func(s *rsys, op int) bool { return descs[op].kind != 2 || !s.rebalanced }
	m.Key = func(s *rsys) string {
		now := clock.Now().UTC()
		dm := lib.Dumper{Now: now, EpochSeconds: isEpoch}
		s.leak()
		return dm.Dump(s.tl) + fmt.Sprintf("|%v|%s|%d", s.rebalanced, s.debt.RatString(), now.UnixNano())
	}
	m.OnTransition = func(s *rsys, hist []int, obs []string, rep *lib.Report) {
		o := obs[len(obs)-1]
		if (strings.HasPrefix(o, "200/") || strings.HasPrefix(o, "429/")) && s.rebalanced {
			rep.Count("requests_after_the_rates_were_rebalanced")
		}
		if strings.Contains(o, "BOUND-EXCEEDED") {
			rep.Violate("C03:admission-bound-exceeded:rates-rebalanced-between-periods", "after the source's rates were rebalanced to {1s: 1/1, 10s: 7/7} the 1s rate admitted more than burst + T/(period/average) + 1: "+o[strings.Index(o, "BOUND-EXCEEDED"):],
				map[string]any{"engine": "xstate", "part": "c03", "config": "rebalanced", "ops": m.OpNames(hist), "observations": obs})
		}
	}
	return m
}

func runRebalanced(tier string, sh lib.Shard, rep *lib.Report) {
	depth := 6
	if tier == "thorough" {
		depth = 8
	}
	m := rebalancedModel(depth)
	m.Shard, m.ShardLevel = sh, 2
	m.Run(rep)
}

func replayRebalanced(rp map[string]any) (bool, string) {
	m := rebalancedModel(0)
	hist, err := m.ParseOps(rp["ops"])
	if err != nil {
		return false, err.Error()
	}
	return m.ReplayHistory(hist, lib.NewReport("C03", "replay"))
}

// Package cb: circuit breaker state machine on the real cbreaker.CircuitBreaker
// under a frozen clock. One model and one monitor serve C05 (a tripped breaker
// shields the backend; legal state edges) and C12 (recovery ramp).
package cb

import (
	"context"
	"fmt"
	"math"
	"math/big"
	"net/http"
	"net/http/httptest"
	"strings"
	"time"

	"github.com/vulcand/oxy/v2/cbreaker"
	"github.com/vulcand/oxy/v2/internal/holsterv4/clock"
	"github.com/vulcand/oxy/v2/zverif/lib"
)

type config struct {
	fallback, recovery, checkPeriod time.Duration
	cond                            string
	badCode                         int
	order                           int  // index into optionOrders: the order in which the three duration options are passed to New
	edge                            bool // sub-millisecond timing around the end of the fallback period (own small alphabet)
	companion                       bool // a second breaker with other durations completes a full cycle before each build
	huge                            int  // index into hugeFallbacks (0: none): a fallback period of centuries; own alphabet, the clock stays in this century
}

// hugeFallbacks: "stay tripped for good" as it is commonly written, and 280 years - trip deadlines beyond the
// year 2262, where a time.Time no longer fits into int64 nanoseconds.
var hugeFallbacks = []time.Duration{0, time.Duration(math.MaxInt64), 280 * 365 * 24 * time.Hour}

// optionOrders: every permutation of (FallbackDuration, RecoveryDuration, CheckPeriod).
var optionOrders = [][3]int{{0, 1, 2}, {0, 2, 1}, {1, 0, 2}, {1, 2, 0}, {2, 0, 1}, {2, 1, 0}}

func (c config) String() string {
	o := ""
	if c.order != 0 {
		o = fmt.Sprintf(",option-order=%v", optionOrders[c.order])
	}
	return fmt.Sprintf("fallback=%v,recovery=%v,check=%v,cond=%s%s", c.fallback, c.recovery, c.checkPeriod, c.cond, o)
}

type sys struct {
	cfg     config
	cb      *cbreaker.CircuitBreaker
	invoked int
	code    int           // what the protected handler answers next
	latency time.Duration // how long it takes (advances the frozen clock)
	// monitor
	tripped           bool
	retripped         bool // the current trip came out of the recovering state
	tripAt            time.Time
	inRecovery        bool
	recStart          time.Time
	passed, refused   int
	lastObservedState string
}

var base = clock.Date(2012, 3, 4, 5, 6, 7, 0, clock.UTC)

// companionCycle: ANOTHER breaker with different durations lives in the same process and goes through a complete
// trip / fallback / recovery / standby cycle just before the breaker under test is built. Instances must not
// influence each other (anything package-level - pools, caches - would carry the other instance's configuration).
func companionCycle(cfg config) {
	clock.Freeze(base.Add(-time.Hour))
	code := cfg.badCode
	h := http.HandlerFunc(func(w http.ResponseWriter, r *http.Request) { w.WriteHeader(code) })
	fb, rc := 3*cfg.fallback+time.Second, 7*cfg.recovery+time.Second
	cb, err := cbreaker.New(h, cfg.cond, cbreaker.FallbackDuration(fb), cbreaker.RecoveryDuration(rc), cbreaker.CheckPeriod(cfg.checkPeriod))
	if err != nil {
		panic(err)
	}
	do := func() { cb.ServeHTTP(httptest.NewRecorder(), httptest.NewRequest("GET", "http://x/", nil)) }
	do() // trips
	code = 200
	clock.Advance(fb + time.Millisecond)
	do() // recovery begins
	clock.Advance(rc / 2)
	for k := 0; k < 4; k++ {
		do()
	}
	clock.Advance(rc)
	do() // back to standby
}

func newSys(cfg config) *sys {
	if cfg.companion {
		companionCycle(cfg)
	}
	clock.Freeze(base)
	s := &sys{cfg: cfg}
	h := http.HandlerFunc(func(w http.ResponseWriter, r *http.Request) {
		s.invoked++
		if s.latency > 0 {
			clock.Advance(s.latency)
		}
		if s.code == abortCode {
			panic(http.ErrAbortHandler) // how a reverse proxy aborts a broken exchange
		}
		w.WriteHeader(s.code)
	})
	three := []cbreaker.Option{cbreaker.FallbackDuration(cfg.fallback), cbreaker.RecoveryDuration(cfg.recovery), cbreaker.CheckPeriod(cfg.checkPeriod)}
	ord := optionOrders[cfg.order]
	// side-effect hooks are configured too (stateless ones: nothing of theirs enters the state key)
	cb, err := cbreaker.New(h, cfg.cond, three[ord[0]], three[ord[1]], three[ord[2]], cbreaker.OnTripped(noEffect{}), cbreaker.OnStandby(noEffect{}))
	if err != nil {
		panic(err)
	}
	s.cb = cb
	s.lastObservedState = s.state()
	return s
}

// state observes the breaker through its public String() method.
func (s *sys) state() string {
	str := s.cb.String()
	i := strings.Index(str, "state=")
	if i < 0 {
		return "?" + str
	}
	str = str[i+6:]
	if j := strings.IndexAny(str, ",)"); j >= 0 {
		str = str[:j]
	}
	return str
}

type verdict struct{ key, detail string }

// mulGT reports a*b > c*d without overflow (request counts times nanoseconds exceed 64 bits for long recoveries).
func mulGT(a, b, c, d int64) bool {
	l := new(big.Int).Mul(big.NewInt(a), big.NewInt(b))
	r := new(big.Int).Mul(big.NewInt(c), big.NewInt(d))
	return l.Cmp(r) > 0
}

// longRamp: one long run instead of a search - a recovery period of days and tens of thousands of requests at
// mid-recovery; the ramp oracle (exact integers) is evaluated on every single request.
func longRamp(rep *lib.Report) {
	for _, cfg := range []config{
		{fallback: time.Second, recovery: 7 * 24 * time.Hour, checkPeriod: time.Millisecond, cond: "NetworkErrorRatio() > 0.5", badCode: 502},
		{fallback: time.Second, recovery: 24 * time.Hour, checkPeriod: time.Millisecond, cond: "NetworkErrorRatio() > 0.5", badCode: 502},
	} {
		s := newSys(cfg)
		s.request(cfg.badCode, 0)
		clock.Advance(cfg.fallback + time.Millisecond)
		s.request(200, 0)
		n := 60000
		if cfg.recovery < 48*time.Hour {
			n = 300000
		}
		for _, at := range []time.Duration{cfg.recovery / 4, cfg.recovery / 4} { // at a quarter, then at half of the recovery
			clock.Advance(at)
			for k := 0; k < n/2; k++ {
				obs, vs := s.request(200, 0)
				rep.Evaluations++
				for _, v := range vs {
					if strings.HasPrefix(v.key, "C12:") {
						rep.Violate(v.key+":long-run", fmt.Sprintf("recovery %v, request %d of a long burst: %s [%s]", cfg.recovery, k+1, v.detail, obs),
							map[string]any{"engine": "xstate", "part": "cb", "mode": "long-ramp", "replayable": false})
						return
					}
				}
			}
		}
		rep.Count("long_ramp_runs")
	}
}

type noEffect struct{}

func (noEffect) Exec() error { return nil }

// abortCode: the protected handler aborts the exchange by panicking instead of answering.
const abortCode = -1

// abandonedCode: the request's context is ALREADY done when it reaches the breaker (the client gave up while the
// request was held in front of it; a caller passed a timed-out context). Still a request: shielded while tripped,
// subject to the ramp while recovering. The handler, where it is reached, answers 200.
const abandonedCode = -2

var legalEdges = map[string]bool{
	"standby>standby": true, "standby>tripped": true,
	"tripped>tripped": true, "tripped>recovering": true,
	"recovering>recovering": true, "recovering>standby": true, "recovering>tripped": true,
}

// request sends one request and evaluates the C05 and C12 oracles for it.
func (s *sys) request(code int, latency time.Duration) (string, []verdict) {
	var vs []verdict
	s.code, s.latency = code, latency
	req := httptest.NewRequest("GET", "http://x/", nil)
	if code == abandonedCode {
		s.code = 200
		ctx, cancel := context.WithCancel(req.Context())
		cancel()
		req = req.WithContext(ctx)
	}
	arrival := clock.Now().UTC()
	before := s.state()
	inv := s.invoked
	rec := httptest.NewRecorder()
	func() {
		defer func() {
			if p := recover(); p != nil && p != http.ErrAbortHandler {
				panic(p)
			}
		}()
		s.cb.ServeHTTP(rec, req)
	}()
	served := s.invoked > inv
	if code == abortCode && served {
		rec.Code = http.StatusServiceUnavailable // nothing was answered; irrelevant for a request that was passed
	}
	after := s.state()
	now := clock.Now().UTC()
	obs := fmt.Sprintf("%s>%s served=%v code=%d", before, after, served, rec.Code)
	if s.invoked > inv+1 {
		vs = append(vs, verdict{"C05:handler-invoked-twice", obs})
	}
	// --- C05
	if !legalEdges[before+">"+after] {
		vs = append(vs, verdict{"C05:illegal-state-edge:" + before + ">" + after, obs})
	}
	if before == "standby" && !served {
		vs = append(vs, verdict{"C05:standby-request-not-passed", "breaker in standby did not pass the request to the handler: " + obs})
	}
	if s.tripped && !arrival.Before(s.tripAt) && arrival.Before(s.tripAt.Add(s.cfg.fallback)) {
		if served {
			vs = append(vs, verdict{"C05:request-passed-during-fallback",
				fmt.Sprintf("tripped at +%v, fallback %v, request arriving at +%v reached the protected handler (%s)", s.tripAt.Sub(base), s.cfg.fallback, arrival.Sub(base), obs)})
			if s.retripped {
				// "trips again and shields the backend anew"
				vs = append(vs, verdict{"C12:not-shielded-anew-after-re-trip",
					fmt.Sprintf("re-tripped from recovery at +%v, fallback %v, request arriving at +%v reached the protected handler (%s)", s.tripAt.Sub(base), s.cfg.fallback, arrival.Sub(base), obs)})
			}
		} else if rec.Code != http.StatusServiceUnavailable {
			vs = append(vs, verdict{"C05:not-answered-by-fallback", obs})
		}
	}
	if !served && rec.Code != http.StatusServiceUnavailable {
		vs = append(vs, verdict{"C05:refused-without-fallback-response", obs})
	}
	// "after the fallback period the breaker re-admits traffic gradually": a request that arrives once the fallback
	// duration has passed finds the breaker tripped for the last time - it starts the recovery
	if before == "tripped" && after == "tripped" && s.tripped && !arrival.Before(s.tripAt.Add(s.cfg.fallback)) {
		vs = append(vs, verdict{"C12:still-tripped-after-fallback-elapsed",
			fmt.Sprintf("tripped at +%v, fallback %v: the request arriving at +%v left the breaker tripped (%s)", s.tripAt.Sub(base), s.cfg.fallback, arrival.Sub(base), obs)})
	}
	// --- C12
	R := int64(s.cfg.recovery)
	switch {
	case before == "tripped" && after == "recovering":
		// recovery begins with this request: elapsed 0, ramp 0 => it must be refused
		s.inRecovery, s.recStart, s.passed, s.refused = true, arrival, 0, 0
		if served {
			vs = append(vs, verdict{"C12:passed-at-ramp-zero", "the request that starts recovery (elapsed 0) was passed: " + obs})
			s.passed++
		} else {
			s.refused++
		}
	case before == "recovering" && s.inRecovery:
		E := int64(arrival.Sub(s.recStart))
		if E <= R {
			if served {
				s.passed++
				if mulGT(int64(s.passed)*2, R, int64(s.passed+s.refused), E) {
					vs = append(vs, verdict{"C12:ramp-exceeded",
						fmt.Sprintf("after this pass %d of %d requests since recovery began were passed at elapsed %v of %v (ramp %.4f): %s", s.passed, s.passed+s.refused, time.Duration(E), s.cfg.recovery, 0.5*float64(E)/float64(R), obs)})
				}
			} else {
				if mulGT(int64(s.passed+s.refused+1), E, int64(s.passed+1)*2, R) {
					vs = append(vs, verdict{"C12:refused-below-ramp",
						fmt.Sprintf("refused although passing would give %d/%d < ramp %.4f at elapsed %v of %v: %s", s.passed+1, s.passed+s.refused+1, 0.5*float64(E)/float64(R), time.Duration(E), s.cfg.recovery, obs)})
				}
				s.refused++
			}
		} else {
			// first request after the recovery period
			if !served {
				vs = append(vs, verdict{"C12:not-standby-after-recovery", fmt.Sprintf("request arriving %v after recovery began (recovery %v) was refused: %s", time.Duration(E), s.cfg.recovery, obs)})
			}
			if after != "standby" && after != "tripped" {
				vs = append(vs, verdict{"C12:not-standby-after-recovery", "state after the first request past the recovery period: " + obs})
			}
			s.inRecovery = false
		}
	}
	if after != "recovering" {
		s.inRecovery = false
	}
	// a new trip is observed when the state becomes tripped from another state
	if after == "tripped" && before != "tripped" {
		s.tripped, s.tripAt = true, now
		s.retripped = before == "recovering"
	} else if after == "standby" {
		s.tripped = false
	}
	s.lastObservedState = after
	return obs, vs
}

type opDesc struct {
	kind    int
	code    int
	latency time.Duration
	d       time.Duration
}

func dedupe(ds []time.Duration) []time.Duration {
	seen := map[time.Duration]bool{}
	var out []time.Duration
	for _, d := range ds {
		if d > 0 && !seen[d] {
			seen[d] = true
			out = append(out, d)
		}
	}
	return out
}

const eps = time.Millisecond

func alphabet(cfg config, prop, tier string) ([]string, []opDesc) {
	var names []string
	var descs []opDesc
	addReq := func(code int, lat time.Duration) {
		names = append(names, fmt.Sprintf("Req(%d,%v)", code, lat))
		descs = append(descs, opDesc{0, code, lat, 0})
	}
	if cfg.huge != 0 {
		// the shield lasts for centuries: requests, and steps of the clock that stay far below the fallback period
		addReq(200, 0)
		addReq(cfg.badCode, 0)
		for _, d := range dedupe([]time.Duration{cfg.checkPeriod + eps, cfg.recovery / 2, cfg.recovery + eps, 24 * time.Hour}) {
			names = append(names, fmt.Sprintf("Advance(%v)", d))
			descs = append(descs, opDesc{1, 0, 0, d})
		}
		return names, descs
	}
	if cfg.edge {
		// requests in the last fraction of a millisecond of the fallback period, recovery periods of microseconds
		addReq(200, 0)
		addReq(cfg.badCode, 0)
		for _, d := range dedupe([]time.Duration{cfg.fallback - 500*time.Microsecond, 100 * time.Microsecond, 300 * time.Microsecond, cfg.fallback, cfg.checkPeriod}) {
			names = append(names, fmt.Sprintf("Advance(%v)", d))
			descs = append(descs, opDesc{1, 0, 0, d})
		}
		return names, descs
	}
	addReq(200, 0)
	addReq(cfg.badCode, 0)
	if prop == "C12" {
		addReq(abortCode, 0) // an admitted exchange that is aborted still was admitted
		// a SLOW failing response (a gateway timeout as long as the fallback period): when it re-trips the breaker, the new
		// fallback period counts from the trip - its completion - not from its arrival
		addReq(cfg.badCode, cfg.fallback)
	}
	if prop != "C12" {
		// a slow failing response: the trip happens when it COMPLETES, half a fallback period after it arrived
		addReq(cfg.badCode, cfg.fallback/2)
		names = append(names, "ReqWithDoneContext(200)")
		descs = append(descs, opDesc{0, abandonedCode, 0, 0})
	}
	var ds []time.Duration
	if prop == "C12" {
		ds = dedupe([]time.Duration{cfg.recovery / 8, cfg.recovery / 4, cfg.recovery / 2, cfg.recovery + eps, cfg.fallback})
	} else {
		ds = dedupe([]time.Duration{cfg.checkPeriod + eps, cfg.fallback / 2, cfg.fallback, cfg.recovery / 2, cfg.recovery + eps, time.Second})
		if tier == "thorough" {
			ds = dedupe(append(ds, cfg.recovery/4, 11*time.Second))
			addReq(cfg.badCode, 200*time.Millisecond)
		}
	}
	for _, d := range ds {
		names = append(names, fmt.Sprintf("Advance(%v)", d))
		descs = append(descs, opDesc{1, 0, 0, d})
	}
	return names, descs
}

func model(cfg config, prop, tier string, depth int) *lib.Model[*sys] {
	names, descs := alphabet(cfg, prop, tier)
	m := &lib.Model[*sys]{Name: "breaker/" + cfg.String(), Ops: names, MaxDepth: depth, Deadline: lib.Deadline}
	m.New = func() *sys { return newSys(cfg) }
	m.Apply = func(s *sys, op int) string {
		d := descs[op]
		if d.kind == 1 {
			clock.Advance(d.d)
			return ""
		}
		obs, vs := s.request(d.code, d.latency)
		for _, v := range vs {
			obs += " !!" + v.key + "!!" + v.detail
		}
		return obs
	}
	m.EnvOp = func(op int) bool { return descs[op].kind == 1 }
	m.SaveEnv = func(s *sys) any { return clock.Now() }
	m.RestoreEnv = func(s *sys, env any) { clock.Freeze(env.(time.Time)) }
	m.Key = func(s *sys) string {
		now := clock.Now().UTC()
		dm := lib.Dumper{Now: now}
		return dm.Dump(s.cb) + fmt.Sprintf("|%d|%v%v,%d,%v,%d,%d,%d", now.UnixNano(), s.tripped, s.retripped, s.tripAt.UnixNano(), s.inRecovery, s.recStart.UnixNano(), s.passed, s.refused)
	}
	m.OnTransition = func(s *sys, hist []int, obs []string, rep *lib.Report) {
		o := obs[len(obs)-1]
		if descs[hist[len(hist)-1]].kind != 0 {
			return
		}
		head := o
		if i := strings.Index(o, " !!"); i >= 0 {
			head = o[:i]
		}
		f := strings.Fields(head)
		rep.Outcome(f[0] + " " + f[1])
		rep.Count("requests")
		if descs[hist[len(hist)-1]].code == abandonedCode && strings.HasPrefix(f[0], "tripped>") {
			rep.Count("requests_with_a_done_context_while_tripped")
		}
		if strings.Contains(f[0], ">tripped") && !strings.HasPrefix(f[0], "tripped") {
			rep.Count("trips_observed")
		}
		if strings.HasPrefix(f[0], "tripped>tripped") {
			rep.Count("requests_shielded_while_tripped")
		}
		if strings.HasPrefix(f[0], "recovering>") && f[1] == "served=true" {
			rep.Count("requests_passed_during_recovery")
		}
		if strings.HasPrefix(f[0], "recovering>") && f[1] == "served=false" {
			rep.Count("requests_refused_during_recovery")
		}
		if f[0] == "recovering>standby" {
			rep.Count("returns_to_standby")
		}
		if f[0] == "recovering>tripped" {
			rep.Count("re_trips_from_recovery")
		}
		for _, part := range strings.Split(o, " !!")[1:] {
			p := strings.SplitN(part, "!!", 2)
			if !strings.HasPrefix(p[0], rep.Property+":") {
				continue
			}
			rep.Violate(p[0], p[1]+" ["+cfg.String()+"]", map[string]any{"engine": "xstate", "part": "cb", "fallback_ns": int64(cfg.fallback), "recovery_ns": int64(cfg.recovery),
				"check_ns": int64(cfg.checkPeriod), "option_order": cfg.order, "edge": cfg.edge, "huge": cfg.huge, "companion": cfg.companion, "cond": cfg.cond, "bad_code": cfg.badCode, "tier": tier, "ops": m.OpNames(hist), "observations": obs})
		}
	}
	return m
}

func configs(prop, tier string) []config {
	S := time.Second
	conds := []struct {
		c    string
		code int
	}{{"NetworkErrorRatio() > 0.5", 502}, {"ResponseCodeRatio(500, 600, 0, 600) > 0.5", 500}}
	var out []config
	fb := []time.Duration{2 * S, 10 * S}
	rc := []time.Duration{2 * S, 10 * S}
	cp := []time.Duration{100 * time.Millisecond, 3 * S}
	if tier == "thorough" {
		cp = append(cp, S)
	}
	if prop == "C12" {
		fb = []time.Duration{2 * S}
		cp = []time.Duration{100 * time.Millisecond}
		if tier == "thorough" {
			cp = append(cp, 3*S)
			fb = append(fb, 10*S)
		}
	}
	for i, f := range fb {
		for j, r := range rc {
			for k, c := range cp {
				for l, cd := range conds {
					if tier != "thorough" && (i+j+k+l)%2 == 1 {
						continue // quick: half of the product, every value of every parameter still occurs
					}
					out = append(out, config{f, r, c, cd.c, cd.code, 0, false, false, 0})
				}
			}
		}
	}
	return out
}

func Run(tier string, sh lib.Shard, rep *lib.Report) {
	prop := rep.Property
	depth := 7
	if tier == "thorough" {
		depth = 8
	}
	if prop == "C12" {
		depth = 6
		if tier == "thorough" {
			depth = 8
		}
	}
	cfgs := configs(prop, tier)
	rep.Bounds["history_depth"] = depth
	var names []string
	for _, c := range cfgs {
		names = append(names, c.String())
	}
	rep.Bounds["configurations"] = names
	rep.Rule = "BFS over all histories (exact keys: full reflective dump of the breaker incl. metrics + absolute instant + monitor; depth-bounded) of Req(code,latency)/Advance(d) on the real CircuitBreaker under a frozen clock; state observed through String(); non-trivial = requests issued while the breaker is tripped or recovering"
	rep.Assume("A2: one API call observes one instant of the frozen clock, except that the protected handler may advance it by its latency")
	if prop == "C12" {
		rep.Require("requests_passed_during_recovery", "requests_refused_during_recovery", "returns_to_standby", "re_trips_from_recovery", "prepared_states_retripped_early_in_recovery")
	} else {
		rep.Require("trips_observed", "requests_shielded_while_tripped", "requests_with_a_done_context_while_tripped", "requests_passed_during_recovery", "returns_to_standby", "prepared_states_retripped_mid_recovery", "sub_millisecond_searches")
	}
	// The order in which options are passed can only matter through the breaker that New builds: all six orders
	// are built, and one representative per DISTINCT built breaker (reflective dump) is explored - a reduction
	// that merges only identical objects. On a tree where the order is irrelevant that is one exploration.
	if prop == "C12" {
		for i := range cfgs {
			cfgs[i].companion = true
		}
		rep.Count("configurations_with_a_companion_breaker")
	}
	var expanded []config
	for _, cfg := range cfgs {
		seen := map[string]bool{}
		for o := range optionOrders {
			c2 := cfg
			c2.order = o
			probe := newSys(c2)
			d := lib.Dumper{Now: clock.Now().UTC()}
			k := d.Dump(probe.cb)
			if !seen[k] {
				seen[k] = true
				expanded = append(expanded, c2)
			}
			rep.Count("option_orders_built")
		}
		if len(seen) > 1 {
			rep.Count("configurations_where_option_order_changes_the_breaker")
		}
	}
	cfgs = expanded
	for _, cfg := range cfgs {
		m := model(cfg, prop, tier, depth)
		m.Shard, m.ShardLevel = sh, 3
		if prop == "C12" {
			// start from "just tripped, fallback elapsed": the next request begins recovery
			adv := -1
			for i, n := range m.Ops {
				if n == fmt.Sprintf("Advance(%v)", cfg.fallback) {
					adv = i
				}
			}
			m.Roots = [][]int{{1, adv}}
			m.MaxDepth = depth + 2
		}
		r := m.Run(rep)
		rep.Sample(3, map[string]any{"model": m.Name, "result": r.Describe()})
		if prop == "C12" {
			// a second prepared state: eight refusals at ramp 0, then - a quarter into the recovery - the first admitted
			// request fails and the breaker trips again, with most of the interrupted recovery still ahead
			q := -1
			for i, n := range m.Ops {
				if n == fmt.Sprintf("Advance(%v)", cfg.recovery/4) {
					q = i
				}
			}
			adv := m.Roots[0][1]
			if q >= 0 {
				root := []int{1, adv, 0, 0, 0, 0, 0, 0, 0, 0, q, 1}
				probe := m.New()
				last := ""
				for _, o := range root {
					last = m.Apply(probe, o)
				}
				if strings.HasPrefix(last, "recovering>tripped") {
					rep.Count("prepared_states_retripped_early_in_recovery")
				}
				m2 := model(cfg, prop, tier, 5)
				m2.Name += "/from-retrip-a-quarter-into-recovery"
				m2.Shard, m2.ShardLevel = sh, 2
				m2.Roots = [][]int{root}
				m2.Run(rep)
			}
		}
		if prop == "C05" {
			// start from non-initial states too: "recovery has begun" and "re-tripped out of recovery"
			// (the second needs eleven operations from the initial state, beyond the depth bound)
			op := func(name string) int {
				for i, n := range m.Ops {
					if n == name {
						return i
					}
				}
				return -1
			}
			bad := op(fmt.Sprintf("Req(%d,0s)", cfg.badCode))
			ok := op("Req(200,0s)")
			advF := op(fmt.Sprintf("Advance(%v)", cfg.fallback))
			advR := op(fmt.Sprintf("Advance(%v)", cfg.recovery/2))
			if bad >= 0 && ok >= 0 && advF >= 0 && advR >= 0 {
				// the third prepared state is a re-trip in the MIDDLE of recovery (three refusals at ramp 0, then at half
				// the recovery period the first admitted request fails): the shield must last a full fallback period
				// from THAT trip, not until the end of the abandoned recovery window
				for _, root := range [][]int{{bad, advF, ok}, {bad, advF, ok, advR, ok, advR, bad}, {bad, advF, ok, ok, ok, advR, bad}} {
					probe := m.New()
					last := ""
					for _, o := range root {
						last = m.Apply(probe, o)
					}
					if strings.HasPrefix(last, "recovering>tripped") {
						rep.Count("prepared_states_retripped_mid_recovery")
					}
					m2 := model(cfg, prop, tier, 5) // five more operations beyond the prepared state
					m2.Name += fmt.Sprintf("/from-prepared-state-%d", len(root))
					m2.Shard, m2.ShardLevel = sh, 2
					m2.Roots = [][]int{root}
					m2.Run(rep)
					rep.Count("prepared_state_searches")
				}
			}
		}
	}
	if prop == "C12" && sh.I == 0 {
		longRamp(rep)
		rep.Require("long_ramp_runs")
	}
	if prop == "C05" {
		// durations are quantified over ALL values: sub-millisecond recovery / fallback periods and requests that
		// arrive within the last millisecond of the shield
		ms, us := time.Millisecond, time.Microsecond
		for _, cfg := range []config{
			{fallback: 2 * time.Second, recovery: 200 * us, checkPeriod: 100 * ms, cond: "NetworkErrorRatio() > 0.5", badCode: 502, edge: true},
			{fallback: 900 * us, recovery: 100 * us, checkPeriod: 100 * ms, cond: "NetworkErrorRatio() > 0.5", badCode: 502, edge: true},
			{fallback: 1500 * us, recovery: 2 * ms, checkPeriod: ms, cond: "ResponseCodeRatio(500, 600, 0, 600) > 0.5", badCode: 500, edge: true},
		} {
			m := model(cfg, prop, tier, depth)
			m.Name += "/sub-millisecond"
			m.Shard, m.ShardLevel = sh, 2
			m.Run(rep)
			rep.Count("sub_millisecond_searches")
		}
		// ... and fallback periods of centuries ("tripped for good"): the deadline lies beyond the year 2262
		for h := 1; h < len(hugeFallbacks); h++ {
			cfg := config{fallback: hugeFallbacks[h], recovery: 2 * time.Second, checkPeriod: 100 * ms, cond: "NetworkErrorRatio() > 0.5", badCode: 502, huge: h}
			m := model(cfg, prop, tier, depth)
			m.Name += "/fallback-of-centuries"
			m.Shard, m.ShardLevel = sh, 2
			m.Run(rep)
			rep.Count("century_fallback_searches")
		}
		rep.Require("century_fallback_searches")
	}
	rep.Nontrivial = rep.Counters["requests_shielded_while_tripped"] + rep.Counters["requests_passed_during_recovery"] + rep.Counters["requests_refused_during_recovery"]
}

func Replay(rp map[string]any) (bool, string) {
	cfg := config{time.Duration(int64(rp["fallback_ns"].(float64))), time.Duration(int64(rp["recovery_ns"].(float64))), time.Duration(int64(rp["check_ns"].(float64))),
		rp["cond"].(string), int(rp["bad_code"].(float64)), 0, false, false, 0}
	if h, ok := rp["huge"].(float64); ok && h > 0 {
		cfg.huge = int(h)
		cfg.fallback = hugeFallbacks[cfg.huge]
	}
	if o, ok := rp["option_order"].(float64); ok {
		cfg.order = int(o)
	}
	cfg.edge = rp["edge"] == true
	cfg.companion = rp["companion"] == true
	prop, _ := rp["property"].(string)
	tier, _ := rp["tier"].(string)
	m := model(cfg, prop, tier, 0)
	hist, err := m.ParseOps(rp["ops"])
	if err != nil {
		return false, err.Error()
	}
	return m.ReplayHistory(hist, lib.NewReport(prop, "replay"))
}

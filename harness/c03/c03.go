// Package c03: token-bucket rate limiter. One explicit-state search on the real
// ratelimit.TokenLimiter (frozen clock) serves C03 (admission bound, leaky-bucket
// debt monitor) and C13 (rejections are free, advertised wait suffices).
package c03

import (
	"fmt"
	"math/big"
	"net/http"
	"net/http/httptest"
	"os"
	"sort"
	"strings"
	"time"

	"github.com/vulcand/oxy/v2/internal/holsterv4/clock"
	"github.com/vulcand/oxy/v2/ratelimit"
	"github.com/vulcand/oxy/v2/utils"
	"github.com/vulcand/oxy/v2/zverif/lib"
)

type rateSpec struct {
	period         time.Duration
	average, burst int64
}

type config struct {
	name  string
	rates []rateSpec
	phase time.Duration // sub-second phase of the clock base
	// non-default configurations
	viaExtractRates bool // the rates are supplied per request through the ExtractRates option
	capacity        int  // >0: Capacity option; the model then also drives a second source
	extraAmounts    []int64
	c13only         bool // burst above 5 x average: outside the premise of C03's bound, explored for C13 only
	nearRefill      bool // the alphabet also holds an idle gap just short of the burst's full refill (two tokens short)
	magnitudes      bool // configurations of unusual magnitude: explored for C03 (both tiers) and, because the continuation probes multiply their cost, for C13 in the thorough tier only
}

func (c config) maxPeriod() time.Duration {
	var m time.Duration
	for _, r := range c.rates {
		if r.period > m {
			m = r.period
		}
	}
	return m
}

// ttl is how long the limiter promises to remember an idle source (documented
// formula: ten whole seconds of the longest period, plus one).
func (c config) ttl() time.Duration {
	return time.Duration(int(c.maxPeriod()/time.Second)*10+1) * time.Second
}

func (c config) minBurst() int64 {
	m := c.rates[0].burst
	for _, r := range c.rates {
		if r.burst < m {
			m = r.burst
		}
	}
	return m
}

func (c config) maxBurst() int64 {
	m := c.rates[0].burst
	for _, r := range c.rates {
		if r.burst > m {
			m = r.burst
		}
	}
	return m
}

// refill is the time after which an idle source must have regained its full burst.
func (c config) refill() time.Duration {
	var m time.Duration
	for _, r := range c.rates {
		d := time.Duration((big.NewInt(0).Div(big.NewInt(0).Mul(big.NewInt(r.burst), big.NewInt(int64(r.period))), big.NewInt(r.average))).Int64())
		if big.NewInt(0).Mod(big.NewInt(0).Mul(big.NewInt(r.burst), big.NewInt(int64(r.period))), big.NewInt(r.average)).Sign() != 0 {
			d++
		}
		if d > m {
			m = d
		}
	}
	return m
}

type sys struct {
	cfg     config
	tl      *ratelimit.TokenLimiter
	served  int
	debt    map[string][]*big.Rat // per source, per rate: leaky-bucket debt as of lastT
	lastT   map[string]time.Time
	lastReq time.Time
}

var base = clock.Date(2012, 3, 4, 5, 6, 7, 0, clock.UTC)

func extractor() utils.SourceExtractor {
	return utils.ExtractorFunc(func(r *http.Request) (string, int64, error) {
		var n int64
		fmt.Sscan(r.Header.Get("Amount"), &n)
		return r.Header.Get("Source"), n, nil
	})
}

func newLimiter(cfg config, capacity int, onServe func()) *ratelimit.TokenLimiter {
	mk := func() *ratelimit.RateSet {
		rs := ratelimit.NewRateSet()
		for _, r := range cfg.rates {
			if err := rs.Add(r.period, r.average, r.burst); err != nil {
				panic(err)
			}
		}
		return rs
	}
	rs := mk()
	var opts []ratelimit.TokenLimiterOption
	if capacity > 0 {
		opts = append(opts, ratelimit.Capacity(capacity))
	}
	if cfg.viaExtractRates {
		// the same rates, but resolved for every request (a fresh RateSet each time, as an extractor would)
		opts = append(opts, ratelimit.ExtractRates(ratelimit.RateExtractorFunc(func(*http.Request) (*ratelimit.RateSet, error) { return mk(), nil })))
		rs = ratelimit.NewRateSet()
		rs.Add(time.Hour, 1, 1) // default rates that must NOT be the ones in force
	}
	tl, err := ratelimit.New(http.HandlerFunc(func(w http.ResponseWriter, r *http.Request) {
		onServe()
		w.WriteHeader(200)
	}), extractor(), rs, opts...)
	if err != nil {
		panic(err)
	}
	return tl
}

func newSys(cfg config) *sys {
	clock.Freeze(base.Add(cfg.phase))
	s := &sys{cfg: cfg, debt: map[string][]*big.Rat{}, lastT: map[string]time.Time{}}
	s.tl = newLimiter(cfg, cfg.capacity, func() { s.served++ })
	s.lastReq = clock.Now()
	return s
}

type outcome struct {
	code    int
	retryIn string
	served  bool
}

func (o outcome) String() string { return fmt.Sprintf("%d/%s/%v", o.code, o.retryIn, o.served) }

func doReq(tl *ratelimit.TokenLimiter, served *int, source string, amount int64) outcome {
	before := *served
	rec := httptest.NewRecorder()
	req := httptest.NewRequest("GET", "http://x/", nil)
	// on the wire the source identifier is a long opaque token (a bearer token, a session cookie): 300 bytes
	req.Header.Set("Source", source+strings.Repeat("-0123456789abcdef", 18)[:299])
	req.Header.Set("Amount", fmt.Sprint(amount))
	tl.ServeHTTP(rec, req)
	return outcome{rec.Code, rec.Header().Get("X-Retry-In"), *served > before}
}

func (s *sys) req(source string, amount int64) outcome {
	o := doReq(s.tl, &s.served, source, amount)
	s.lastReq = clock.Now()
	return o
}

// settle brings the debt of a source up to the current instant.
func (s *sys) settle(source string) []*big.Rat {
	now := clock.Now()
	d := s.debt[source]
	if d == nil {
		d = make([]*big.Rat, len(s.cfg.rates))
		for i := range d {
			d[i] = new(big.Rat)
		}
		s.debt[source] = d
	}
	if last, ok := s.lastT[source]; ok {
		dt := now.Sub(last)
		for i, r := range s.cfg.rates {
			// (elapsed ns x average overflows 64 bits for an hourly quota of millions: multiply in big integers)
			leak := new(big.Rat).SetFrac(new(big.Int).Mul(big.NewInt(int64(dt)), big.NewInt(r.average)), big.NewInt(int64(r.period)))
			d[i].Sub(d[i], leak)
			if d[i].Sign() < 0 {
				d[i].SetInt64(0)
			}
		}
	}
	s.lastT[source] = now
	return d
}

// admit updates the monitor for an admitted request and returns the index of a
// rate whose bound is exceeded, or -1.
func (s *sys) admit(source string, amount int64) int {
	d := s.settle(source)
	bad := -1
	for i, r := range s.cfg.rates {
		d[i].Add(d[i], new(big.Rat).SetInt64(amount))
		if d[i].Cmp(new(big.Rat).SetInt64(r.burst+1)) > 0 {
			bad = i
		}
	}
	return bad
}

func (s *sys) debtKey() string {
	var srcs []string
	for k := range s.debt {
		srcs = append(srcs, k)
	}
	sort.Strings(srcs)
	var sb strings.Builder
	for _, src := range srcs {
		d := s.settle(src)
		sb.WriteString(src + ":")
		for _, x := range d {
			sb.WriteString(x.RatString() + ",")
		}
	}
	return sb.String()
}

type opDesc struct {
	kind   int // 0 request, 1 advance
	amount int64
	d      time.Duration
	source string
}

func tpt(r rateSpec) time.Duration { return time.Duration(int64(r.period) / r.average) }

func alphabet(cfg config, tier string) ([]string, []opDesc) {
	r0 := cfg.rates[0]
	amounts := append([]int64{1, 2, cfg.minBurst(), cfg.maxBurst(), cfg.maxBurst() + 1}, cfg.extraAmounts...)
	var names []string
	var descs []opDesc
	seenA := map[int64]bool{}
	for _, a := range amounts {
		if seenA[a] {
			continue
		}
		seenA[a] = true
		names = append(names, fmt.Sprintf("Req(%d)", a))
		descs = append(descs, opDesc{0, a, 0, "a"})
	}
	if cfg.capacity > 0 {
		// a second source, still within the capacity
		for _, a := range []int64{1, cfg.minBurst()} {
			names = append(names, fmt.Sprintf("Req(b,%d)", a))
			descs = append(descs, opDesc{0, a, 0, "b"})
		}
	}
	t := tpt(r0)
	ds := []time.Duration{t / 2, t, 3 * t / 2, time.Second, time.Duration(r0.burst) * t, cfg.ttl() - 500*time.Millisecond, cfg.ttl(), cfg.ttl() + time.Second}
	if len(cfg.rates) > 1 {
		ds = append(ds, tpt(cfg.rates[1]), cfg.rates[1].period)
	}
	if cfg.nearRefill {
		// idle for almost as long as the drained burst needs to refill: a source forgotten by then is handed a fresh burst
		ds = append(ds, time.Duration(r0.burst-2)*t)
	}
	seenD := map[time.Duration]bool{}
	for _, d := range ds {
		if seenD[d] || d <= 0 {
			continue
		}
		seenD[d] = true
		names = append(names, fmt.Sprintf("Advance(%v)", d))
		descs = append(descs, opDesc{1, 0, d, ""})
	}
	return names, descs
}

func isEpoch(typ, field string) bool { return typ == "PQItem" && field == "Priority" }

func model(cfg config, tier string, relative bool, depth int) *lib.Model[*sys] {
	names, descs := alphabet(cfg, tier)
	mode := "exact"
	if relative {
		mode = "relative"
	}
	m := &lib.Model[*sys]{Name: fmt.Sprintf("limiter/%s/%s", cfg.name, mode), Ops: names, MaxDepth: depth, Deadline: lib.Deadline}
	m.New = func() *sys { return newSys(cfg) }
	m.Apply = func(s *sys, op int) string {
		d := descs[op]
		if d.kind == 1 {
			clock.Advance(d.d)
			return ""
		}
		o := s.req(d.source, d.amount)
		if o.served {
			if bad := s.admit(d.source, d.amount); bad >= 0 {
				return o.String() + fmt.Sprintf("/BOUND-EXCEEDED source %s rate#%d debt=%s", d.source, bad, s.debt[d.source][bad].FloatString(3))
			}
		}
		return o.String()
	}
	idleCap := 2 * cfg.ttl()
	m.Enabled = func(s *sys, op int) bool {
		if descs[op].kind == 1 && relative {
			// beyond 2*TTL of idleness nothing can change any more (the entry has expired
			// and the debt has leaked away): keeps the relative state space finite
			return clock.Now().Sub(s.lastReq)+descs[op].d <= idleCap
		}
		return true
	}
	m.Key = func(s *sys) string {
		now := clock.Now().UTC()
		dm := lib.Dumper{Now: now, Relative: relative, EpochSeconds: isEpoch}
		k := dm.Dump(s.tl) + "|" + s.debtKey()
		if relative {
			return k + fmt.Sprintf("|ns=%d", now.Nanosecond())
		}
		return k + fmt.Sprintf("|now=%d", now.UnixNano())
	}
	m.OnTransition = func(s *sys, hist []int, obs []string, rep *lib.Report) {
		o := obs[len(obs)-1]
		d := descs[hist[len(hist)-1]]
		if d.kind != 0 {
			return
		}
		what := func() map[string]any {
			return map[string]any{"engine": "xstate", "part": "c03", "config": cfg.name, "phase_ns": int64(cfg.phase), "relative": relative, "ops": m.OpNames(hist), "observations": obs}
		}
		rep.Count("requests")
		switch {
		case strings.Contains(o, "BOUND-EXCEEDED"):
			rep.Violate("C03:admission-bound-exceeded:"+cfg.name, "admitted amount exceeds burst + T/(period/average) + 1 over some interval: "+o[strings.Index(o, "BOUND-EXCEEDED"):], what())
		case strings.HasPrefix(o, "200/"):
			rep.Count("admissions")
		case strings.HasPrefix(o, "429/"):
			rep.Count("rejections")
		}
		// (d) a request larger than some burst is refused outright, with an error and no delay
		oc := parseOutcome(o)
		if d.amount > cfg.minBurst() {
			rep.Count("oversized_requests")
			if oc.served || oc.code < 400 || oc.retryIn != "" {
				rep.Violate("C13:oversized-not-refused-outright:"+cfg.name, fmt.Sprintf("Req(%d) with a burst of %d: %s (want an error status, no X-Retry-In, handler not invoked)", d.amount, cfg.minBurst(), o), what())
			}
		} else if !oc.served && (oc.code != 429 || oc.retryIn == "") {
			rep.Violate("C13:rejection-without-delay:"+cfg.name, fmt.Sprintf("Req(%d) within the burst was rejected with %s (want 429 and X-Retry-In)", d.amount, o), what())
		}
	}
	m.Check = func(s *sys, hist []int, obs []string, rep *lib.Report) {
		if rep.Property != "C03" { // the continuation probes are C13's oracle
			checkC13(m, cfg, descs, hist, rep)
		}
	}
	return m
}

func parseOutcome(o string) outcome {
	p := strings.Split(o, "/")
	var oc outcome
	fmt.Sscan(p[0], &oc.code)
	oc.retryIn = p[1]
	oc.served = p[2] == "true"
	return oc
}

// checkC13: continuation probes from the state reached by hist (fresh instances).
func checkC13(m *lib.Model[*sys], cfg config, descs []opDesc, hist []int, rep *lib.Report) {
	what := func(extra string) map[string]any {
		return map[string]any{"engine": "xstate", "part": "c03", "config": cfg.name, "phase_ns": int64(cfg.phase), "relative": strings.HasSuffix(m.Name, "relative"),
			"ops": m.OpNames(hist), "continuation": extra}
	}
	fresh := func() *sys { s, _ := m.Build(hist); return s }
	var amounts []int64
	for a := int64(1); a <= cfg.maxBurst()+1; a++ {
		if a <= 2 || a >= cfg.minBurst() {
			amounts = append(amounts, a)
		}
	}
	// baseline: outcome of probe(k) directly from s
	baseOut := map[int64]outcome{}
	for _, k := range amounts {
		baseOut[k] = fresh().req("a", k)
	}
	for _, q := range amounts {
		if baseOut[q].served {
			continue
		}
		// q is rejected (or refused) at s
		rep.Count("rejected_requests_probed")
		for _, reps := range []int{1, 3} {
			for _, k := range amounts {
				s := fresh()
				for i := 0; i < reps; i++ {
					s.req("a", q)
				}
				got := s.req("a", k)
				if got != baseOut[k] {
					rep.Violate("C13:rejection-not-free:"+cfg.name,
						fmt.Sprintf("after %d rejected Req(%d), Req(%d) gives %v; without them it gives %v", reps, q, k, got, baseOut[k]), what(fmt.Sprintf("%dx Req(%d); Req(%d)", reps, q, k)))
					return
				}
				rep.Count("free_rejection_probes")
			}
		}
		// (a') ... nor later: after the same further wait the source gets the same answer with and
		// without the rejected request (its only lasting effect may be a refreshed lifetime of the
		// entry, which cannot matter: an entry that old holds a full bucket anyway)
		for _, dly := range []time.Duration{tpt(cfg.rates[0]) / 2, tpt(cfg.rates[0])} {
			for _, k := range amounts[:1] {
				s1 := fresh()
				clock.Advance(dly)
				want := s1.req("a", k)
				s2 := fresh()
				s2.req("a", q)
				clock.Advance(dly)
				got := s2.req("a", k)
				if got != want {
					rep.Violate("C13:rejection-not-free-later:"+cfg.name,
						fmt.Sprintf("a rejected Req(%d), then %v later Req(%d) gives %v; without the rejected request it gives %v", q, dly, k, got, want), what(fmt.Sprintf("Req(%d); Advance(%v); Req(%d)", q, dly, k)))
					return
				}
				rep.Count("delayed_free_rejection_probes")
			}
		}
		// (b) the advertised wait is sufficient
		if q <= cfg.minBurst() && baseOut[q].retryIn != "" {
			d, err := time.ParseDuration(baseOut[q].retryIn)
			if err != nil || d <= 0 {
				rep.Violate("C13:bad-retry-delay:"+cfg.name, fmt.Sprintf("X-Retry-In %q is not a positive duration", baseOut[q].retryIn), what(fmt.Sprintf("Req(%d)", q)))
				return
			}
			s := fresh()
			s.req("a", q)
			clock.Advance(d)
			if got := s.req("a", q); !got.served {
				rep.Violate("C13:advertised-wait-insufficient:"+cfg.name,
					fmt.Sprintf("Req(%d) rejected with X-Retry-In %v; retried after exactly that delay it gives %v", q, d, got), what(fmt.Sprintf("Req(%d); Advance(%v); Req(%d)", q, d, q)))
				return
			}
			rep.Count("advertised_waits_checked")
		}
	}
	// (c) an idle source regains its full burst after burst*(period/average)
	s := fresh()
	clock.Advance(cfg.refill())
	if got := s.req("a", cfg.minBurst()); !got.served {
		rep.Violate("C13:burst-not-regained:"+cfg.name,
			fmt.Sprintf("after %v of idleness Req(%d) gives %v", cfg.refill(), cfg.minBurst(), got), what(fmt.Sprintf("Advance(%v); Req(%d)", cfg.refill(), cfg.minBurst())))
		return
	}
	rep.Count("regain_probes")
}

func configs(tier string) []config {
	S := time.Second
	sets := []struct {
		name  string
		rates []rateSpec
	}{
		{"1s:1/1", []rateSpec{{S, 1, 1}}},
		{"1s:2/3", []rateSpec{{S, 2, 3}}},
		{"1s:3/2", []rateSpec{{S, 3, 2}}},
		{"1s:1/5", []rateSpec{{S, 1, 5}}},
		{"2s:1/2", []rateSpec{{2 * S, 1, 2}}},
		{"1s:2/2+3s:3/4", []rateSpec{{S, 2, 2}, {3 * S, 3, 4}}},
	}
	phases := []time.Duration{0, 300 * time.Millisecond}
	if tier == "thorough" {
		sets = append(sets, struct {
			name  string
			rates []rateSpec
		}{"1s:2/2+10s:5/5", []rateSpec{{S, 2, 2}, {10 * S, 5, 5}}})
		phases = append(phases, 750*time.Millisecond)
	}
	var out []config
	for _, st := range sets {
		for _, ph := range phases {
			out = append(out, config{name: fmt.Sprintf("%s@%v", st.name, ph), rates: st.rates, phase: ph})
		}
	}
	// non-default configurations: per-request rate extraction; a small capacity with two sources
	out = append(out, config{name: "1s:1/1@300ms+ExtractRates", rates: sets[0].rates, phase: 300 * time.Millisecond, viaExtractRates: true})
	out = append(out, config{name: "1s:1/5@0s+ExtractRates", rates: sets[3].rates, viaExtractRates: true})
	out = append(out, config{name: "1s:1/1@0s+Capacity(2)", rates: sets[0].rates, capacity: 2})
	// a fine-grained rate: one token every 250 microseconds (delays far below a millisecond)
	out = append(out, config{name: "1s:4000/2@0s", rates: []rateSpec{{S, 4000, 2}}, magnitudes: true})
	// a deep burst (more than ten times the average): waits of more than ten periods are advertised
	out = append(out, config{name: "1s:1/12@0s", rates: []rateSpec{{S, 1, 12}}, extraAmounts: []int64{11}, c13only: true})
	// a ladder of six rates (more buckets are debited by one request than any small fixed number)
	out = append(out, config{name: "six-rates@0s", rates: []rateSpec{{S, 1, 1}, {10 * S, 2, 2}, {20 * S, 2, 2}, {30 * S, 2, 2}, {40 * S, 2, 2}, {50 * S, 2, 2}}, c13only: true})
	// large magnitudes: an hourly quota of 36 million units (one token every 100 microseconds), requests of millions
	out = append(out, config{name: "1h:36000000/36000000@0s", rates: []rateSpec{{3600 * S, 36_000_000, 36_000_000}}, extraAmounts: []int64{3_000_000, 9_000_000}, magnitudes: true})
	// a fractional period just below two seconds with the deepest burst the documentation calls safe (5 x average): the
	// remembered lifetime of an idle source (whole seconds) is at its tightest against the refill time (9.5s)
	out = append(out, config{name: "1.9s:100/500@750ms", rates: []rateSpec{{1900 * time.Millisecond, 100, 500}}, phase: 750 * time.Millisecond, nearRefill: true, magnitudes: true})
	out = append(out, config{name: "2s:1/2@300ms+Capacity(2)", rates: sets[4].rates, phase: 300 * time.Millisecond, capacity: 2})
	return out
}

// Run explores the limiter for the configurations of this shard. The report is
// written for rep.Property (C03 or C13): only that property's violations are kept.
func Run(tier string, sh lib.Shard, rep *lib.Report) {
	exactDepth, cap := 5, 30000
	if tier == "thorough" {
		exactDepth, cap = 7, 600000
	}
	if rep.Property != "C03" { // the probes multiply the cost per state; C03 runs the exact-key cross-check
		exactDepth, cap = 3, 12000
		if tier == "thorough" {
			exactDepth, cap = 5, 150000
		}
	}
	rep.Bounds["exact_key_depth"] = exactDepth
	rep.Bounds["relative_key_state_cap_per_config"] = cap
	rep.Rule = "BFS on the real TokenLimiter under a frozen clock over Req(amount)/Advance(d): (i) relative state keys (all instants relative to now, plus now mod 1s; idle time capped at 2*TTL) to FIXPOINT = histories of unbounded length, (ii) exact keys to a depth bound as cross-check; leaky-bucket debt monitor in exact rationals (C03); differential continuation probes from every state (C13); non-trivial = states reached"
	rep.Assume("A2: one API call observes one instant of the frozen clock", "relative keys assume translation invariance of the limiter; cross-checked by the exact-key search")
	rep.Require("admissions", "rejections", "oversized_requests")
	if rep.Property != "C03" {
		rep.Require("rejected_requests_probed", "free_rejection_probes", "advertised_waits_checked", "regain_probes")
	}
	// the small special models first: the big searches below may use up the whole time budget
	if rep.Property == "C03" {
		runGrow(tier, sh, rep)
		runRebalanced(tier, sh, rep)
		rep.Require("requests_after_the_rate_set_grew", "requests_after_the_rates_were_rebalanced")
	}
	if rep.Property == "C13" {
		runInPlace(tier, sh, rep)
		rep.Require("requests_after_the_rate_set_was_changed_in_place", "advertised_delays_waited_out", "idle_refills_checked")
	}
	var results []string
	gang := os.Getenv("VERIF_GANG_DIR")
	for _, cfg := range configs(tier) {
		if cfg.magnitudes && rep.Property != "C03" && tier != "thorough" {
			// (the continuation probes multiply the cost per state) quick tier: all histories of two operations only
			m2 := model(cfg, tier, false, 2)
			r2 := m2.RunDistributed(rep, sh, gang)
			rep.Add("states["+m2.Name+"]", r2.States)
			rep.Count("magnitude_configurations_probed_to_depth_2")
			continue
		}
		if cfg.c13only && rep.Property == "C03" {
			continue
		}
		// every configuration is explored by all workers together (distributed BFS by state hash)
		m := model(cfg, tier, true, 0)
		m.MaxStates = cap
		r := m.RunDistributed(rep, sh, gang)
		// per-model totals are summed over the workers (each owns the states of its hash class)
		rep.Add("states["+m.Name+"]", r.States)
		if sh.I == 0 {
			rep.Sample(2, map[string]any{"model": m.Name, "worker_0_share": r.Describe()})
			if r.Complete {
				rep.Count("configs_explored_to_fixpoint")
				results = append(results, m.Name+": fixpoint (histories of unbounded length)")
			} else {
				results = append(results, fmt.Sprintf("%s: stopped at the state cap or budget after depth %d", m.Name, r.Depth))
			}
		}
		m2 := model(cfg, tier, false, exactDepth)
		r2 := m2.RunDistributed(rep, sh, gang)
		rep.Add("states["+m2.Name+"]", r2.States)
	}
	rep.Bounds["searches"] = results
	rep.Nontrivial = rep.States
	// keep only this property's violations
	keep := rep.Violations[:0]
	for _, v := range rep.Violations {
		if strings.HasPrefix(v.Key, rep.Property+":") {
			keep = append(keep, v)
		}
	}
	rep.Violations = keep
}

func Replay(rp map[string]any) (bool, string) {
	name, _ := rp["config"].(string)
	if name == "grow" {
		return replayGrow(rp)
	}
	if name == "rebalanced" {
		return replayRebalanced(rp)
	}
	if name == "in-place" {
		return replayInPlace(rp)
	}
	prop, _ := rp["property"].(string)
	for _, tier := range []string{"quick", "thorough"} {
		for _, cfg := range configs(tier) {
			if cfg.name != name {
				continue
			}
			m := model(cfg, tier, rp["relative"] == true, 0)
			hist, err := m.ParseOps(rp["ops"])
			if err != nil {
				return false, err.Error()
			}
			rep := lib.NewReport(prop, "replay")
			// replay evaluates both oracles; report only the property's own
			s := m.New()
			var obs []string
			for i, op := range hist {
				obs = append(obs, m.Apply(s, op))
				m.OnTransition(s, hist[:i+1], obs, rep)
			}
			m.Check(s, hist, obs, rep)
			for _, v := range rep.Violations {
				if strings.HasPrefix(v.Key, prop+":") {
					return true, v.Key + " :: " + v.Detail
				}
			}
			return false, fmt.Sprintf("history %v (observations %v): oracle satisfied", m.OpNames(hist), obs)
		}
	}
	return false, "unknown configuration " + name
}

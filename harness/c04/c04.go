//go:build verif

// Package c04: per-source concurrent-connection limit under all interleavings
// (also serves the connection-limiter half of C14).
package c04

import (
	"fmt"
	"net/http"
	"net/http/httptest"
	"strings"

	"github.com/vulcand/oxy/v2/connlimit"
	"github.com/vulcand/oxy/v2/internal/verif/vrt"
	"github.com/vulcand/oxy/v2/utils"
	"github.com/vulcand/oxy/v2/zverif/lib"
	"github.com/vulcand/oxy/v2/zverif/sched"
)

const maxSources = 4

type world struct {
	prop    string
	limit   int64
	cl      *connlimit.ConnLimiter
	ref     [maxSources]int64 // admitted and slot not yet returned, per source (norace, plain array)
	status  []int
	sources []int
	panics  []bool
}

//go:norace
func (w *world) enter(src int) {
	w.ref[src]++
	if w.ref[src] > w.limit {
		vrt.Fail(w.prop+":connlimit:over-limit", fmt.Sprintf("source %d has %d requests inside the handler, limit %d", src, w.ref[src], w.limit))
	}
}

//go:norace
func (w *world) leave(src int) { w.ref[src]-- }

//go:norace
func (w *world) refOf(src int) int64 { return w.ref[src] }

// The two sources are distinct byte strings that are NOT valid UTF-8 and differ in one such byte only (Latin-1
// header values, raw binary keys): they stay distinct sources.
func srcName(i int) string { return "k" + string([]byte{0xe9 - byte(i)}) }

func srcLabel(i int) string { return string(rune('a' + i)) }

func srcIndex(name string) int { return int(0xe9 - name[len(name)-1]) }

func extractor() utils.SourceExtractor {
	return utils.ExtractorFunc(func(r *http.Request) (string, int64, error) { return r.Header.Get("Source"), 1, nil })
}

func newReq(src int) *http.Request {
	r := httptest.NewRequest(http.MethodGet, "http://x/", nil)
	r.Header.Set("Source", srcName(src))
	return r
}

// scenario: one thread per entry of sources; panics[i] makes thread i's handler panic.
func scenario(prop string, limit int64, sources []int, panics []bool, bound int, verbose bool) *sched.Scenario {
	return scenarioW(prop, limit, sources, panics, bound, verbose, false)
}

// lateWrap: the limiter is built without a handler (two-phase construction), serves two requests in that state -
// they abort - and only then gets its handler through Wrap: aborted exchanges hold no slot.
func scenarioW(prop string, limit int64, sources []int, panics []bool, bound int, verbose, lateWrap bool) *sched.Scenario {
	name := fmt.Sprintf("connlimit/limit=%d/sources=%v/panics=%v/bound=%d/verbose=%v", limit, sources, panics, bound, verbose)
	if lateWrap {
		name += "/handler-bound-late"
	}
	sc := &sched.Scenario{Name: name, Bound: bound, Info: map[string]any{"limit": limit, "sources": sources, "panics": panics}}
	sc.New = func() *sched.Instance {
		w := &world{prop: prop, limit: limit, sources: sources, panics: panics, status: make([]int, len(sources))}
		cur := make([]int, len(sources)) // per-thread slot telling the handler who is calling
		_ = cur
		inst := &sched.Instance{}
		handler := http.HandlerFunc(func(rw http.ResponseWriter, r *http.Request) {
			src := srcIndex(r.Header.Get("Source"))
			w.enter(src)
			// the handler (or something behind it) edits the request it was handed - here the very header that named
			// the source: the slot stays booked against the source the request ARRIVED with
			r.Header.Del("Source")
			vrt.Yield() // the request is in flight
			if r.Header.Get("Panic") != "" {
				panic("handler aborts")
			}
			rw.WriteHeader(200)
		})
		var opts []connlimit.Option
		if verbose {
			opts = append(opts, connlimit.Verbose(true), connlimit.Logger(lib.FormatLogger{}))
		}
		var first http.Handler = handler
		if lateWrap {
			first = nil
		}
		cl, err := connlimit.New(first, extractor(), limit, opts...)
		if err != nil {
			panic(err)
		}
		if lateWrap {
			for k := 0; k < 2; k++ {
				func() {
					defer func() { recover() }()
					cl.ServeHTTP(httptest.NewRecorder(), newReq(0))
				}()
			}
			cl.Wrap(handler)
		}
		w.cl = cl
		for i := range sources {
			i := i
			inst.Names = append(inst.Names, fmt.Sprintf("req%d(%s)", i, srcLabel(sources[i])))
			inst.Bodies = append(inst.Bodies, func() {
				src := sources[i]
				req := newReq(src)
				if panics[i] {
					req.Header.Set("Panic", "1")
				}
				rec := httptest.NewRecorder()
				admitted := false
				func() {
					defer func() {
						if r := recover(); r != nil {
							if _, ok := r.(string); !ok {
								panic(r) // scheduler abort signal etc.
							}
							w.status[i] = -1
							admitted = true
						}
					}()
					w.cl.ServeHTTP(rec, req)
					w.status[i] = rec.Code
					admitted = rec.Code == 200
				}()
				if admitted {
					w.leave(src) // ServeHTTP has returned (or unwound): the slot must be free again
				} else if rec.Code == http.StatusTooManyRequests {
					// no scheduling point separates the rejecting lock acquisition from this line
					if got := w.refOf(src); got != limit {
						vrt.Fail(prop+":connlimit:spurious-429", fmt.Sprintf("source %s rejected while only %d of its requests were in flight (limit %d)", srcLabel(src), got, limit))
					}
				} else {
					vrt.Fail(prop+":connlimit:bad-status", fmt.Sprintf("unexpected status %d", rec.Code))
				}
			})
		}
		inst.Check = func(x *vrt.Exec) []vrt.Failure {
			var fails []vrt.Failure
			// quiescence: every source can reach the full maximum again, and not more
			for src := 0; src < 2; src++ {
				depth := 0
				var statuses []int
				var nest http.HandlerFunc
				probe, _ := connlimit.New(nil, extractor(), limit)
				_ = probe
				nest = func(rw http.ResponseWriter, r *http.Request) {
					depth++
					if depth <= int(limit) {
						rec := httptest.NewRecorder()
						w.cl.ServeHTTP(rec, newReq(src))
						statuses = append(statuses, rec.Code)
					}
					rw.WriteHeader(200)
				}
				w.cl.Wrap(nest)
				rec := httptest.NewRecorder()
				w.cl.ServeHTTP(rec, newReq(src))
				statuses = append(statuses, rec.Code)
				// expected: limit admissions (200) and exactly one rejection: the innermost
				n200, n429 := 0, 0
				for _, s := range statuses {
					if s == 200 {
						n200++
					} else if s == 429 {
						n429++
					}
				}
				if n200 != int(limit) || n429 != 1 || statuses[0] != 429 {
					fails = append(fails, vrt.Failure{Key: prop + ":connlimit:slot-leak",
						Detail: fmt.Sprintf("after all requests finished, source %s admitted %d nested requests then answered %v (want %d admissions then one 429)", srcLabel(src), n200, statuses, limit)})
				}
			}
			return fails
		}
		inst.Outcome = func() string {
			var sb strings.Builder
			for _, s := range w.status {
				fmt.Fprintf(&sb, "%d,", s)
			}
			return sb.String()
		}
		return inst
	}
	return sc
}

// stackedScenario: TWO limiters in one chain, keyed by the same source - a frontend-wide limit of 2 in front of a
// stricter limit of 1 (per location, say). Each is a limiter of its own: the handler behind the inner one never
// sees more than ONE request of a source at a time, whatever the outer one admitted.
func stackedScenario(prop string, sources []int, bound int) *sched.Scenario {
	sc := &sched.Scenario{Name: fmt.Sprintf("connlimit-stacked/outer=2/inner=1/sources=%v/bound=%d", sources, bound), Bound: bound, Info: map[string]any{"sources": sources}}
	sc.New = func() *sched.Instance {
		w := &world{prop: prop, limit: 1, sources: sources, status: make([]int, len(sources))}
		handler := http.HandlerFunc(func(rw http.ResponseWriter, r *http.Request) {
			src := srcIndex(r.Header.Get("Source"))
			w.enter(src)
			vrt.Yield()
			w.leave(src)
			rw.WriteHeader(200)
		})
		inner, err := connlimit.New(handler, extractor(), 1)
		if err != nil {
			panic(err)
		}
		outer, err := connlimit.New(inner, extractor(), 2)
		if err != nil {
			panic(err)
		}
		inst := &sched.Instance{}
		for i := range sources {
			i := i
			inst.Names = append(inst.Names, fmt.Sprintf("req%d(%s)", i, srcLabel(sources[i])))
			inst.Bodies = append(inst.Bodies, func() {
				rec := httptest.NewRecorder()
				outer.ServeHTTP(rec, newReq(sources[i]))
				w.status[i] = rec.Code
				if rec.Code != 200 && rec.Code != http.StatusTooManyRequests {
					vrt.Fail(prop+":connlimit:bad-status", fmt.Sprintf("unexpected status %d through two stacked limiters", rec.Code))
				}
			})
		}
		inst.Check = func(x *vrt.Exec) []vrt.Failure {
			// quiescence: a lone request of each source passes both limiters
			for src := 0; src < 2; src++ {
				rec := httptest.NewRecorder()
				outer.ServeHTTP(rec, newReq(src))
				if rec.Code != 200 {
					return []vrt.Failure{{Key: prop + ":connlimit:slot-leak", Detail: fmt.Sprintf("stacked limiters: after all requests finished a lone request of source %s was answered %d", srcLabel(src), rec.Code)}}
				}
			}
			return nil
		}
		inst.Outcome = func() string { return fmt.Sprint(w.status) }
		return inst
	}
	return sc
}

// Scenarios lists every (limit, source assignment, panic pattern) of the tier.
func Scenarios(prop, tier string) []*sched.Scenario {
	out := scenariosFor(prop, 3, -1)
	if prop == "C04" {
		out = append(out, stackedScenario(prop, []int{0, 0, 0}, 3), stackedScenario(prop, []int{0, 0, 1}, 3))
	}
	if tier == "thorough" {
		// four threads: the unbounded space has ~10^10 schedules per scenario; explored with at most 3 preemptions
		out = append(out, scenariosFor(prop, 4, 3)...)
	}
	return out
}

// scenariosFor lists every (limit, source assignment, panic pattern) for n threads.
func scenariosFor(prop string, nthreads, bound int) []*sched.Scenario {
	var out []*sched.Scenario
	for _, limit := range []int64{1, 2} {
		// source assignments up to renaming: thread 0 is source a
		var assigns [][]int
		var gen func(cur []int)
		gen = func(cur []int) {
			if len(cur) == nthreads {
				assigns = append(assigns, append([]int{}, cur...))
				return
			}
			for s := 0; s < 2; s++ {
				gen(append(cur, s))
			}
		}
		gen([]int{0})
		for _, a := range assigns {
			for mask := 0; mask < 1<<nthreads; mask++ {
				p := make([]bool, nthreads)
				for i := range p {
					p[i] = mask&(1<<i) != 0
				}
				out = append(out, scenario(prop, limit, a, p, bound, false))
				if mask == 0 {
					out = append(out, scenarioW(prop, limit, a, p, bound, false, true))
				}
				if mask != 0 && mask&(mask-1) == 0 || mask == 1<<nthreads-1 {
					// non-default options (verbose logging through a formatting logger): one panic / all panic patterns
					out = append(out, scenario(prop, limit, a, p, bound, true))
				}
			}
		}
	}
	return out
}

// Run explores all interleavings of every scenario of this shard.
func Run(tier string, sh lib.Shard, rep *lib.Report) {
	prop := rep.Property
	if prop == "" {
		prop = "C04"
		rep.Property = prop
	}
	scs := Scenarios(prop, tier)
	rep.Bounds["threads"] = "3 threads: unbounded (all interleavings); thorough adds 4 threads with at most 3 preemptions"
	rep.Bounds["scenarios"] = len(scs)
	rep.Rule = "stateless DFS over every interleaving of the request threads at the scheduling points (limiter lock acquisitions, in-handler yield, thread start/end) on the real ConnLimiter; limits {1,2}, sources {a,b}, every normal/panic pattern; a schedule is non-trivial when it contains at least one preemption"
	rep.Assume("A3: sequential consistency between scheduling points (the race detector run of C09 covers unsynchronised accesses)")
	rep.Require("executions_with_preemption", "rejections_observed", "panicking_handlers")
	for i, sc := range scs {
		if !sh.Mine(i) {
			continue
		}
		e := sched.NewExplorer(rep, lib.Shard{I: 0, N: 1}, "c04") // scenarios are the unit of sharding here
		st := e.Explore(sc)
		rep.Nontrivial += st.WithPreemption
		rep.Add("scenarios_explored", 1)
		if !st.Complete {
			rep.Exhaustive = false
		}
	}
	if prop == "C04" {
		rep.Require("wide_domain_sources_simultaneously_in_flight")
		if sh.Mine(len(scs)) {
			runWide(prop, tier, rep)
		}
	}
	for k, v := range rep.Outcomes {
		if strings.Contains(k, "429") {
			rep.Add("rejections_observed", v)
		}
		if strings.Contains(k, "-1") {
			rep.Add("panicking_handlers", v)
		}
	}
}

// Find returns the scenario with the given name (replay).
func Find(prop, name string) *sched.Scenario {
	for _, tier := range []string{"quick", "thorough"} {
		for _, sc := range Scenarios(prop, tier) {
			if sc.Name == name {
				return sc
			}
		}
	}
	return nil
}

//go:build verif

package c04

import (
	"fmt"
	"net/http"
	"runtime/debug"

	"github.com/vulcand/oxy/v2/connlimit"
	"github.com/vulcand/oxy/v2/utils"
	"github.com/vulcand/oxy/v2/zverif/lib"
)

// A wide source domain: EVERY address of 10.0.0.0/14 (2^18 sources; thorough 10.0.0.0/13, 2^19) holds one
// connection on one limiter of limit 1 AT THE SAME TIME - the handler of source i issues the request of source
// i+1, a nest 2^18 deep, sequential and deterministic. A source is rejected only when IT already has the maximum
// in flight, so every one of them must be admitted, whatever the others hold: an exhaustive check of the
// "per source" clause over a domain that is large against any narrowed representation of the source token
// (a 32-bit digest has about 8 colliding pairs among 2^18 tokens). Innermost, a second request of the first, a
// middle and the last source must be refused (their slot is taken) and a source outside the domain admitted;
// after the nest has unwound, every slot must be free again.

type codeWriter struct {
	code int
	h    http.Header
}

func (w *codeWriter) Header() http.Header {
	if w.h == nil {
		w.h = http.Header{}
	}
	return w.h
}
func (w *codeWriter) WriteHeader(c int) {
	if w.code == 0 {
		w.code = c
	}
}
func (w *codeWriter) Write(b []byte) (int, error) {
	if w.code == 0 {
		w.code = 200
	}
	return len(b), nil
}

func wideAddr(i int) string { return fmt.Sprintf("10.%d.%d.%d", i>>16, (i>>8)&255, i&255) }

func wideN(tier string) int {
	if tier == "thorough" {
		return 1 << 19
	}
	return 1 << 18
}

type wideResult struct {
	bad    bool
	key    string
	detail string
}

func runWideOnce(prop string, n int) wideResult {
	debug.SetMaxStack(3 << 30)
	ext, err := utils.NewExtractor("client.ip")
	if err != nil {
		panic(err)
	}
	var res wideResult
	fail := func(key, detail string) {
		if !res.bad {
			res = wideResult{true, prop + ":" + key + ":wide-source-domain", detail}
		}
	}
	depth := 0
	idlePass, idleSeen := false, 0
	var cl *connlimit.ConnLimiter
	send := func(addr string) int {
		w := &codeWriter{}
		cl.ServeHTTP(w, &http.Request{Method: "GET", RemoteAddr: addr + ":4000", Header: http.Header{}})
		return w.code
	}
	inner := func() {
		// everybody is in flight
		for _, i := range []int{0, n / 2, n - 1} {
			if c := send(wideAddr(i)); c != http.StatusTooManyRequests {
				fail("admitted-over-limit", fmt.Sprintf("source %s holds its one connection, its second request was answered %d, want 429", wideAddr(i), c))
			}
		}
	}
	cl, err = connlimit.New(http.HandlerFunc(func(w http.ResponseWriter, r *http.Request) {
		if res.bad {
			// a failure has been recorded: unwind (an over-admitted request would otherwise start a nest of its own)
			w.WriteHeader(200)
			return
		}
		if idlePass {
			// second pass (below): the request of a source that has just been admitted asks again for the same source
			if c := send(r.RemoteAddr[:len(r.RemoteAddr)-5]); c != http.StatusTooManyRequests {
				fail("admitted-over-limit", fmt.Sprintf("source %s (%d sources have come and gone before it in this pass) holds its one connection, its second request was answered %d, want 429", r.RemoteAddr, idleSeen, c))
			}
			w.WriteHeader(200)
			return
		}
		depth++
		me := depth
		if me <= n {
			// the source just admitted is at its limit from this instant on, however many sources the limiter holds
			if c := send(wideAddr(me - 1)); c != http.StatusTooManyRequests {
				fail("admitted-over-limit", fmt.Sprintf("source %s (the %d-th distinct source, all earlier ones still in flight) holds its one connection, its second request was answered %d, want 429", wideAddr(me-1), me, c))
			}
			depth = me
		}
		if me < n {
			if c := send(wideAddr(me)); c != 200 {
				fail("rejected-below-limit", fmt.Sprintf("source %s has nothing in flight (limit 1; %d OTHER sources hold one connection each) and was answered %d, want 200", wideAddr(me), me, c))
			}
		} else if me == n {
			inner()
		}
		w.WriteHeader(200)
	}), ext, 1)
	if err != nil {
		panic(err)
	}
	idle := func(net, count int) {
		idlePass = true
		for i := 0; i < count && !res.bad; i++ {
			idleSeen++
			if c := send(fmt.Sprintf("%d.%d.%d.%d", net, i>>16, (i>>8)&255, i&255)); c != 200 {
				fail("rejected-below-limit", fmt.Sprintf("idle pass: source %d was answered %d, want 200", i, c))
			}
		}
		idlePass = false
	}
	idle(11, 70000) // on the fresh limiter, before the nest; once more (net 12) after it
	if c := send(wideAddr(0)); c != 200 {
		fail("rejected-below-limit", fmt.Sprintf("the first request of the first source was answered %d", c))
	}
	if depth < n && !res.bad {
		fail("rejected-below-limit", fmt.Sprintf("the nest stopped at %d of %d sources", depth, n))
	}
	// all slots are back
	depth = n + 1
	for _, i := range []int{0, 1, n / 2, n - 1} {
		if c := send(wideAddr(i)); c != 200 {
			fail("slot-not-returned", fmt.Sprintf("after every request has returned, source %s was answered %d, want 200", wideAddr(i), c))
		}
	}
	// idle passes (on the fresh limiter before the nest, and again after it): 70 000 / 3 000 further sources come and go one after the
	// other; while each is inside the handler its second request must be refused. Bookkeeping that is tidied up "every so
	// many sources" (a table pruned at a size, a generation counter) meets a request in flight at every count.
	idle(12, 3000)
	return res
}

func runWide(prop, tier string, rep *lib.Report) {
	n := wideN(tier)
	r := runWideOnce(prop, n)
	rep.Evaluations += n
	rep.Add("wide_domain_sources_simultaneously_in_flight", n)
	rep.Bounds["wide_source_domain"] = fmt.Sprintf("%d addresses (10.0.0.0 ... %s), all in flight at once, limit 1", n, wideAddr(n-1))
	if r.bad {
		rep.Violate(r.key, r.detail, map[string]any{"engine": "enum", "binary": "vsched", "part": "c04wide", "property": prop, "sources": n})
	}
}

// ReplayWide re-runs the wide-domain nest.
func ReplayWide(rp map[string]any) (bool, string) {
	n := 1 << 18
	if f, ok := rp["sources"].(float64); ok {
		n = int(f)
	}
	prop, _ := rp["property"].(string)
	if prop == "" {
		prop = "C04"
	}
	r := runWideOnce(prop, n)
	if r.bad {
		return true, r.key + " :: " + r.detail
	}
	return false, "every source of the domain was admitted"
}

//go:build verif

package c14

import (
	"fmt"
	"net/http"
	"net/http/httptest"
	"time"

	"github.com/vulcand/oxy/v2/internal/holsterv4/clock"
	"github.com/vulcand/oxy/v2/internal/verif/vrt"
	"github.com/vulcand/oxy/v2/ratelimit"
	"github.com/vulcand/oxy/v2/zverif/lib"
	"github.com/vulcand/oxy/v2/zverif/sched"
)

type tally struct {
	ok, rejected [3]int
}

//go:norace
func (t *tally) add(src int, admitted bool) {
	if admitted {
		t.ok[src]++
	} else {
		t.rejected[src]++
	}
}

// three threads, two sources, frozen clock (also the first contact of a source): per source exactly min(requests, burst)
// requests are admitted whatever the interleaving (= every sequential order).
func rlScenario(prop string, plan [][]int, bound int) *sched.Scenario {
	name := fmt.Sprintf("ratelimit-concurrent/plan=%v", plan)
	sc := &sched.Scenario{Name: name, Bound: bound, Info: map[string]any{"plan": plan}}
	sc.New = func() *sched.Instance {
		clock.VerifInstall(base, nil)
		t := &tally{}
		rs := ratelimit.NewRateSet()
		rs.Add(time.Second, 1, 2)
		tl, err := ratelimit.New(http.HandlerFunc(func(w http.ResponseWriter, r *http.Request) { vrt.Yield(); w.WriteHeader(200) }), extractor(), rs)
		if err != nil {
			panic(err)
		}
		inst := &sched.Instance{}
		total := [3]int{}
		for ti, reqs := range plan {
			reqs := reqs
			for _, s := range reqs {
				total[s]++
			}
			inst.Names = append(inst.Names, fmt.Sprintf("t%d", ti))
			inst.Bodies = append(inst.Bodies, func() {
				for _, src := range reqs {
					rec := httptest.NewRecorder()
					req := httptest.NewRequest("GET", "http://x/", nil)
					req.Header.Set("Source", sources[src])
					req.Header.Set("Amount", "1")
					tl.ServeHTTP(rec, req)
					t.add(src, rec.Code == 200)
				}
			})
		}
		inst.Check = func(x *vrt.Exec) []vrt.Failure {
			var f []vrt.Failure
			for s := 0; s < 3; s++ {
				want := total[s]
				if want > burst {
					want = burst
				}
				if t.ok[s] != want || t.ok[s]+t.rejected[s] != total[s] {
					f = append(f, vrt.Failure{Key: prop + ":ratelimit-concurrent:admissions-differ-from-sequential",
						Detail: fmt.Sprintf("source %s: %d of %d requests admitted at one instant, every sequential order admits %d", sources[s], t.ok[s], total[s], want)})
				}
			}
			return f
		}
		inst.Outcome = func() string { return fmt.Sprint(t.ok, t.rejected) }
		return inst
	}
	return sc
}

func Scenarios(prop, tier string) []*sched.Scenario {
	out := []*sched.Scenario{
		rlScenario(prop, [][]int{{0, 0}, {0}, {1}}, -1),
		rlScenario(prop, [][]int{{0, 1}, {1, 0}}, -1),
		rlScenario(prop, [][]int{{0}, {0}, {0}}, -1),
	}
	if tier == "thorough" {
		out = append(out, rlScenario(prop, [][]int{{0, 0}, {0}, {1, 1}}, -1), rlScenario(prop, [][]int{{0, 1}, {1, 0}, {0}}, -1),
			rlScenario(prop, [][]int{{0, 0}, {0, 1}, {1, 1}, {1}}, 4))
	}
	return out
}

func RunSched(tier string, sh lib.Shard, rep *lib.Report) {
	rep.Rule = "stateless DFS over all interleavings of three threads sending requests of two sources through the real TokenLimiter at one frozen instant (scheduling points: limiter and TTL-map locks, in-handler yield); admissions per source must equal those of every sequential order; race detector on every schedule"
	rep.Require("executions_with_preemption")
	prop := rep.Property
	if prop == "" {
		prop = "C14"
	}
	for _, sc := range Scenarios(prop, tier) {
		e := sched.NewExplorer(rep, sh, "c14s")
		st := e.Explore(sc)
		rep.Nontrivial += st.WithPreemption
		if !st.Complete {
			rep.Exhaustive = false
		}
	}
}

func Find(prop, name string) *sched.Scenario {
	for _, sc := range Scenarios(prop, "thorough") {
		if sc.Name == name {
			return sc
		}
	}
	return nil
}

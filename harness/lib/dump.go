package lib

import (
	"fmt"
	"reflect"
	"sort"
	"strings"
	"time"
	"unsafe"
)

// Dumper renders the complete private state of a real object graph as a
// canonical string. It is the state key of the explicit-state search: two
// histories are merged only if the objects they produce dump identically.
// No oxy type, field or function name is hard-wired here; Skip lets a check
// project fields the property cannot observe (each use is justified in the
// check and spot-checked by the search, see xstate.go).
type Dumper struct {
	// Now is the frozen instant. With Relative, every time.Time is rendered as
	// an offset from Now, otherwise as absolute nanoseconds.
	Now      time.Time
	Relative bool
	// Skip(structTypeName, fieldName) drops a field from the dump.
	Skip func(typ, field string) bool
	// EpochSeconds(structTypeName, fieldName) marks an integer field that holds
	// absolute Unix seconds; with Relative it is rendered as an offset from Now.
	EpochSeconds func(typ, field string) bool
}

var timeType = reflect.TypeOf(time.Time{})

func (d *Dumper) Dump(vals ...any) string {
	var sb strings.Builder
	seen := map[unsafe.Pointer]int{}
	for i, v := range vals {
		if i > 0 {
			sb.WriteString(" ## ")
		}
		d.dump(&sb, reflect.ValueOf(v), seen, 0)
	}
	return sb.String()
}

func skipType(t reflect.Type) bool {
	p := t.PkgPath()
	if p == "sync" || p == "sync/atomic" || strings.HasSuffix(p, "/vsync") || strings.HasSuffix(p, "/vatomic") {
		return true
	}
	return false
}

func (d *Dumper) dump(sb *strings.Builder, v reflect.Value, seen map[unsafe.Pointer]int, depth int) {
	if depth > 60 {
		sb.WriteString("<deep>")
		return
	}
	if !v.IsValid() {
		sb.WriteString("nil")
		return
	}
	t := v.Type()
	if t == timeType {
		tm := v.Interface().(time.Time)
		switch {
		case tm.IsZero():
			sb.WriteString("T0")
		case d.Relative:
			fmt.Fprintf(sb, "T%+d", tm.Sub(d.Now).Nanoseconds())
		default:
			fmt.Fprintf(sb, "T=%d", tm.UnixNano())
		}
		return
	}
	if skipType(t) {
		sb.WriteString("_")
		return
	}
	switch v.Kind() {
	case reflect.Bool:
		fmt.Fprintf(sb, "%t", v.Bool())
	case reflect.Int, reflect.Int8, reflect.Int16, reflect.Int32, reflect.Int64:
		fmt.Fprintf(sb, "%d", v.Int())
	case reflect.Uint, reflect.Uint8, reflect.Uint16, reflect.Uint32, reflect.Uint64, reflect.Uintptr:
		fmt.Fprintf(sb, "%d", v.Uint())
	case reflect.Float32, reflect.Float64:
		fmt.Fprintf(sb, "%v", v.Float())
	case reflect.Complex64, reflect.Complex128:
		fmt.Fprintf(sb, "%v", v.Complex())
	case reflect.String:
		fmt.Fprintf(sb, "%q", v.String())
	case reflect.Func:
		if v.IsNil() {
			sb.WriteString("fn:nil")
		} else {
			sb.WriteString("fn")
		}
	case reflect.Chan, reflect.UnsafePointer:
		sb.WriteString("_")
	case reflect.Interface:
		if v.IsNil() {
			sb.WriteString("nil")
			return
		}
		e := v.Elem()
		sb.WriteString("(" + e.Type().String() + ")")
		d.dump(sb, e, seen, depth+1)
	case reflect.Ptr:
		if v.IsNil() {
			sb.WriteString("nil")
			return
		}
		p := unsafe.Pointer(v.Pointer())
		if id, ok := seen[p]; ok {
			fmt.Fprintf(sb, "^%d", id)
			return
		}
		id := len(seen)
		seen[p] = id
		fmt.Fprintf(sb, "&%d:", id)
		d.dump(sb, v.Elem(), seen, depth+1)
	case reflect.Struct:
		// Invariant: v never carries reflect's read-only flag (every field is
		// "laundered" through NewAt below), so Set/Interface are always legal.
		if !v.CanAddr() {
			c := reflect.New(t).Elem()
			c.Set(v)
			v = c
		}
		sb.WriteString(t.Name() + "{")
		for i := 0; i < v.NumField(); i++ {
			f := t.Field(i)
			if d.Skip != nil && d.Skip(t.Name(), f.Name) {
				continue
			}
			sb.WriteString(f.Name + ":")
			fv := v.Field(i)
			if d.Relative && d.EpochSeconds != nil && fv.Kind() == reflect.Int && d.EpochSeconds(t.Name(), f.Name) {
				fmt.Fprintf(sb, "E%+d,", fv.Int()-d.Now.Unix())
				continue
			}
			fv = reflect.NewAt(fv.Type(), unsafe.Pointer(fv.UnsafeAddr())).Elem()
			d.dump(sb, fv, seen, depth+1)
			sb.WriteString(",")
		}
		sb.WriteString("}")
	case reflect.Map:
		if v.IsNil() {
			sb.WriteString("map:nil")
			return
		}
		type kv struct{ k, v string }
		var items []kv
		it := v.MapRange()
		for it.Next() {
			var kb, vb strings.Builder
			// keys and values are dumped with a private "seen" copy for the key
			// (keys are scalars in oxy) and the shared one for values
			d.dump(&kb, it.Key(), map[unsafe.Pointer]int{}, depth+1)
			items = append(items, kv{kb.String(), ""})
			_ = vb
		}
		sort.Slice(items, func(i, j int) bool { return items[i].k < items[j].k })
		// second pass in sorted key order so that pointer numbering is canonical
		byKey := map[string]reflect.Value{}
		it = v.MapRange()
		for it.Next() {
			var kb strings.Builder
			d.dump(&kb, it.Key(), map[unsafe.Pointer]int{}, depth+1)
			byKey[kb.String()] = it.Value()
		}
		sb.WriteString("map[")
		for _, item := range items {
			sb.WriteString(item.k + "=>")
			d.dump(sb, byKey[item.k], seen, depth+1)
			sb.WriteString(";")
		}
		sb.WriteString("]")
	case reflect.Slice, reflect.Array:
		if v.Kind() == reflect.Slice && v.IsNil() {
			sb.WriteString("[]nil")
			return
		}
		n := v.Len()
		ek := t.Elem().Kind()
		if ek == reflect.Int64 && v.Kind() == reflect.Slice && t.Elem() == reflect.TypeOf(int64(0)) {
			// fast path (HDR histogram counters): no reflection per element
			xs := v.Interface().([]int64)
			sb.WriteString("[")
			for i := 0; i < len(xs); {
				j := i
				for j < len(xs) && xs[j] == xs[i] {
					j++
				}
				if j-i > 1 {
					fmt.Fprintf(sb, "%dx%d ", xs[i], j-i)
				} else {
					fmt.Fprintf(sb, "%d ", xs[i])
				}
				i = j
			}
			sb.WriteString("]")
			return
		}
		if ek >= reflect.Int && ek <= reflect.Uint64 || ek == reflect.Float64 {
			// run-length encoded (HDR histograms carry thousands of zero counters)
			sb.WriteString("[")
			i := 0
			for i < n {
				j := i
				cur := scalar(v.Index(i))
				for j < n && scalar(v.Index(j)) == cur {
					j++
				}
				if j-i > 1 {
					fmt.Fprintf(sb, "%sx%d ", cur, j-i)
				} else {
					sb.WriteString(cur + " ")
				}
				i = j
			}
			sb.WriteString("]")
			return
		}
		sb.WriteString("[")
		for i := 0; i < n; i++ {
			d.dump(sb, v.Index(i), seen, depth+1)
			sb.WriteString(" ")
		}
		sb.WriteString("]")
	default:
		sb.WriteString("?" + v.Kind().String())
	}
}

func scalar(v reflect.Value) string {
	switch v.Kind() {
	case reflect.Int, reflect.Int8, reflect.Int16, reflect.Int32, reflect.Int64:
		return fmt.Sprint(v.Int())
	case reflect.Float32, reflect.Float64:
		return fmt.Sprint(v.Float())
	default:
		return fmt.Sprint(v.Uint())
	}
}

// Field reads a (possibly unexported) field by path from a pointer to struct,
// e.g. Field(limiter, "bucketSets", "elements"). Used only by oracles that the
// design explicitly allows to look at private state (C14's eviction victim); a
// missing field returns an invalid Value and the check reports exit 2, never a
// violation.
func Field(root any, path ...string) reflect.Value {
	v := reflect.ValueOf(root)
	for _, p := range path {
		for v.Kind() == reflect.Ptr || v.Kind() == reflect.Interface {
			if v.IsNil() {
				return reflect.Value{}
			}
			v = v.Elem()
		}
		if v.Kind() != reflect.Struct {
			return reflect.Value{}
		}
		f := v.FieldByName(p)
		if !f.IsValid() {
			return reflect.Value{}
		}
		if f.CanAddr() {
			f = reflect.NewAt(f.Type(), unsafe.Pointer(f.UnsafeAddr())).Elem()
		}
		v = f
	}
	return v
}

// HeldLocks try-locks every mutex that is a direct field of the struct root points to (whatever its type: sync's
// or the scheduler shim's) and returns the names of those that are held. In a sequential harness, between two
// calls, nobody is running: a held lock stays held for ever and every later call that needs it never returns.
func HeldLocks(root any) []string {
	v := reflect.ValueOf(root)
	for v.Kind() == reflect.Ptr || v.Kind() == reflect.Interface {
		if v.IsNil() {
			return nil
		}
		v = v.Elem()
	}
	if v.Kind() != reflect.Struct || !v.CanAddr() {
		return nil
	}
	var held []string
	for i := 0; i < v.NumField(); i++ {
		f := v.Field(i)
		if f.Kind() != reflect.Struct {
			continue
		}
		p := reflect.NewAt(f.Type(), unsafe.Pointer(f.UnsafeAddr())).Interface()
		if m, ok := p.(interface {
			TryLock() bool
			Unlock()
		}); ok {
			if m.TryLock() {
				m.Unlock()
			} else {
				held = append(held, v.Type().Field(i).Name)
			}
		}
	}
	return held
}

//go:build verif

package cb

import (
	"fmt"
	"net/http"
	"net/http/httptest"
	"strings"
	"time"

	"github.com/vulcand/oxy/v2/cbreaker"
	"github.com/vulcand/oxy/v2/internal/holsterv4/clock"
	"github.com/vulcand/oxy/v2/internal/verif/vrt"
	"github.com/vulcand/oxy/v2/zverif/lib"
	"github.com/vulcand/oxy/v2/zverif/sched"
)

// Concurrent parts of C05 / C12 / C18: overlapping in-flight requests and a clock
// thread around a trip and inside the recovery ramp, under the controlled scheduler.

type ev struct {
	kind   int // 0 passed to handler, 1 refused (fallback), 2 completion observed state
	thread int
	clock  time.Time
	state  string
}

type cworld struct {
	resume   [8]time.Time // clock when a request's handler resumed after its in-flight yield
	cb       *cbreaker.CircuitBreaker
	evs      [128]ev
	n        int
	arrSeq   [8]int
	arrClock [8]time.Time
	tripped  int // OnTripped executions
	standby  int
}

//go:norace
func (w *cworld) add(e ev) int {
	w.evs[w.n] = e
	w.n++
	return w.n
}

//go:norace
func (w *cworld) seq() int { return w.n }

//go:norace
func (w *cworld) resumed(t int) {
	w.resume[t] = clock.Now()
	w.add(ev{kind: 3, thread: t, clock: clock.Now()})
}

//go:norace
func (w *cworld) arrive(t int) { w.arrSeq[t] = w.n; w.arrClock[t] = clock.Now() }

type eff struct {
	w    *cworld
	trip bool
}

//go:norace
func (e eff) Exec() error {
	if e.trip {
		e.w.tripped++
	} else {
		e.w.standby++
	}
	return nil
}

// transitionLogger: the breaker announces every state change through its logger at the very instant it makes it
// (under its lock): that gives the oracle the exact instant of each trip (event kind 4).
type transitionLogger struct{ w *cworld }

//go:norace
func (l transitionLogger) Debug(msg string, a ...any) {
	if strings.Contains(msg, "setting state to") && len(a) >= 2 {
		l.w.add(ev{kind: 4, thread: -1, clock: clock.Now(), state: fmt.Sprint(a[1])})
	}
}
func (transitionLogger) Info(string, ...any)  {}
func (transitionLogger) Warn(string, ...any)  {}
func (transitionLogger) Error(string, ...any) {}

func stateOf(cb *cbreaker.CircuitBreaker) string {
	s := cb.String()
	i := strings.Index(s, "state=")
	s = s[i+6:]
	if j := strings.IndexAny(s, ",)"); j >= 0 {
		s = s[:j]
	}
	return s
}

const (
	cFallback = 10 * time.Second
	cRecovery = 10 * time.Second
)

func newBreaker(w *cworld, code *int) *cbreaker.CircuitBreaker {
	var cur [8]int // thread id of the request being served is passed through a header
	_ = cur
	h := http.HandlerFunc(func(rw http.ResponseWriter, r *http.Request) {
		t := int(r.Header.Get("T")[0] - '0')
		w.add(ev{kind: 0, thread: t, clock: clock.Now()})
		vrt.Yield() // the request is in flight
		w.resumed(t)
		rw.WriteHeader(*code)
	})
	cb, err := cbreaker.New(h, "NetworkErrorRatio() > 0.5", cbreaker.FallbackDuration(cFallback), cbreaker.RecoveryDuration(cRecovery),
		cbreaker.CheckPeriod(100*time.Millisecond), cbreaker.OnTripped(eff{w, true}), cbreaker.OnStandby(eff{w, false}), cbreaker.Logger(transitionLogger{w}))
	if err != nil {
		panic(err)
	}
	return cb
}

func (w *cworld) request(t int) {
	w.arrive(t)
	req := httptest.NewRequest("GET", "http://x/", nil)
	req.Header.Set("T", fmt.Sprint(t))
	rec := httptest.NewRecorder()
	before := w.seq()
	w.cb.ServeHTTP(rec, req)
	// refused requests produce no handler event: record the refusal now (no scheduling point
	// separates the decision from this line, Unlock and clock reads are not points here)
	served := false
	for i := before; i < w.seq(); i++ {
		if w.evs[i].kind == 0 && w.evs[i].thread == t {
			served = true
		}
	}
	if !served {
		if rec.Code != http.StatusServiceUnavailable {
			vrt.Fail("C05:refused-without-fallback-response", fmt.Sprintf("request %d refused with status %d", t, rec.Code))
		}
		w.add(ev{kind: 1, thread: t, clock: clock.Now()})
	}
	w.add(ev{kind: 2, thread: t, clock: clock.Now(), state: stateOf(w.cb)})
}

// tripRace: failing requests overlap; the clock thread moves time by less than the
// fallback duration in total. After a completion has observed "tripped", no
// request that arrives later may reach the handler; exactly one trip.
func tripRace(prop string, nreq, bound int) *sched.Scenario {
	sc := &sched.Scenario{Name: fmt.Sprintf("breaker-trip-race/requests=%d/bound=%d", nreq, bound), Bound: bound}
	sc.New = func() *sched.Instance {
		clock.VerifInstall(base, nil)
		w := &cworld{}
		code := 502
		w.cb = newBreaker(w, &code)
		inst := &sched.Instance{}
		for t := 0; t < nreq; t++ {
			t := t
			inst.Names = append(inst.Names, fmt.Sprintf("req%d", t))
			inst.Bodies = append(inst.Bodies, func() {
				w.request(t)
				if t == 0 {
					w.arrive(nreq) // a second request from the same client, after its first one completed
					w.requestAs(nreq)
				}
			})
		}
		inst.Names = append(inst.Names, "clock")
		inst.Bodies = append(inst.Bodies, func() {
			clock.VerifAdvance(150 * time.Millisecond)
			vrt.Yield()
			clock.VerifAdvance(2 * time.Second)
		})
		inst.Check = func(x *vrt.Exec) []vrt.Failure {
			var f []vrt.Failure
			firstTripped := -1
			for i := 0; i < w.n; i++ {
				if w.evs[i].kind == 2 && w.evs[i].state == "tripped" {
					firstTripped = i
					break
				}
			}
			if firstTripped >= 0 {
				for i := firstTripped + 1; i < w.n; i++ {
					e := w.evs[i]
					if e.kind == 0 && w.arrSeq[e.thread] > firstTripped {
						f = append(f, vrt.Failure{Key: prop + ":request-passed-during-fallback:concurrent",
							Detail: fmt.Sprintf("request %d arrived after a completion had observed the breaker tripped (%v after start, fallback %v) and still reached the handler", e.thread, w.arrClock[e.thread].Sub(base), cFallback)})
					}
				}
			}
			final := stateOf(w.cb)
			if prop == "C18" || prop == "C05" {
				if w.tripped != 1 && final == "tripped" {
					f = append(f, vrt.Failure{Key: "C18:on-tripped-count:concurrent", Detail: fmt.Sprintf("failing completions raced to trip the breaker: OnTripped ran %d times, one transition", w.tripped)})
				}
			}
			// (whether the breaker ends up tripped depends on which completion happened to be the
			// first one after a check period and on how many records it saw: not asserted)
			return f
		}
		inst.Outcome = func() string {
			var sb strings.Builder
			for i := 0; i < w.n; i++ {
				if w.evs[i].kind < 2 {
					fmt.Fprintf(&sb, "%d%c", w.evs[i].thread, "pr"[w.evs[i].kind])
				}
			}
			return sb.String()
		}
		return inst
	}
	return sc
}

func (w *cworld) requestAs(t int) { w.request(t) }

// shielded: oracle shared by the C05 scenarios. For every request that reached the handler,
// look at the last completion (before the request arrived) that observed the breaker
// tripped while no later completion observed it in standby: the trip happened after that
// completing request resumed from its in-flight yield, so the request under scrutiny must
// have been refused if it arrived less than the fallback duration after that instant.
func (w *cworld) shielded(fallback time.Duration) []vrt.Failure {
	return w.shieldedFor("C05", fallback)
}

func (w *cworld) shieldedFor(prop string, fallback time.Duration) []vrt.Failure {
	var f []vrt.Failure
	// "from the instant the breaker trips": the breaker announced the trip at instant T (event kind 4); a request that
	// enters the protected handler later in the event order, at a clock reading below T + fallback, was passed
	// inside the window
	for j := 0; j < w.n; j++ {
		if w.evs[j].kind != 4 || w.evs[j].state != "tripped" {
			continue
		}
		T := w.evs[j].clock
		for i := j + 1; i < w.n; i++ {
			if w.evs[i].kind == 0 && w.evs[i].clock.Before(T.Add(fallback)) && w.arrSeq[w.evs[i].thread] > j {
				f = append(f, vrt.Failure{Key: prop + ":request-passed-during-fallback:after-announced-trip",
					Detail: fmt.Sprintf("the breaker announced its trip at +%v (fallback %v); request %d arrived after that and entered the protected handler at +%v", T.Sub(base), fallback, w.evs[i].thread, w.evs[i].clock.Sub(base))})
				return f
			}
		}
	}
	// the breaker may not LEAVE the tripped state earlier than a fallback duration after the trip: both instants are
	// announced by the breaker itself (transition events, kind 4)
	for j := 0; j < w.n; j++ {
		if w.evs[j].kind != 4 || w.evs[j].state != "tripped" {
			continue
		}
		for i := j + 1; i < w.n; i++ {
			if w.evs[i].kind != 4 {
				continue
			}
			if w.evs[i].state != "tripped" && w.evs[i].clock.Before(w.evs[j].clock.Add(fallback)) {
				f = append(f, vrt.Failure{Key: prop + ":left-tripped-state-before-fallback-elapsed:concurrent",
					Detail: fmt.Sprintf("the breaker announced its trip at +%v and its move to %s at +%v, less than the fallback duration %v later", w.evs[j].clock.Sub(base), w.evs[i].state, w.evs[i].clock.Sub(base), fallback)})
				return f
			}
			break // the next announced transition ends this trip episode
		}
	}
	for i := 0; i < w.n; i++ {
		e := w.evs[i]
		if e.kind != 0 {
			continue
		}
		a := w.arrSeq[e.thread]
		k := -1
		for j := 0; j < a; j++ {
			if w.evs[j].kind == 2 {
				if w.evs[j].state == "tripped" {
					k = j
				} else if w.evs[j].state == "standby" {
					k = -1
				}
			}
		}
		if k < 0 {
			continue
		}
		tripNotBefore := w.resume[w.evs[k].thread]
		if tripNotBefore.IsZero() {
			continue // the observing request was itself refused: it did not trip anything
		}
		if w.arrClock[e.thread].Before(tripNotBefore.Add(fallback)) && !w.arrClock[e.thread].Before(w.evs[k].clock) {
			f = append(f, vrt.Failure{Key: "C05:request-passed-during-fallback:concurrent",
				Detail: fmt.Sprintf("request %d arrived at +%v, after a completion had observed the breaker tripped at +%v (fallback %v), and still reached the protected handler", e.thread, w.arrClock[e.thread].Sub(base), w.evs[k].clock.Sub(base), fallback)})
		}
	}
	return f
}

// retripRace (C05): a slow request B is in flight since standby; C trips the breaker; the
// fallback period passes; A' starts recovery (guided preparation). Then B completes with a
// failure and re-trips the breaker while A is arriving, the clock moves on by less than the
// fallback duration, and D arrives: D must be refused.
func retripRace(bound int) *sched.Scenario { return retripRaceFor("C05", bound) }

// (for C12 the same scenario checks the clause "if the condition matches again the breaker trips again and shields the backend anew")
func retripRaceFor(prop string, bound int) *sched.Scenario {
	sc := &sched.Scenario{Name: fmt.Sprintf("breaker-retrip-race/bound=%d", bound), Bound: bound}
	const fb, rc = 10 * time.Second, time.Second
	sc.Guide = []vrt.GuideStep{{T: 0, Until: "yield"}, {T: 1, Until: "yield"}, {T: 1, Until: "done"}, {T: 2, Until: "yield"}, {T: 3, Until: "done"}}
	sc.New = func() *sched.Instance {
		clock.VerifInstall(base, nil)
		w := &cworld{}
		code := 502
		h := http.HandlerFunc(func(rw http.ResponseWriter, r *http.Request) {
			t := int(r.Header.Get("T")[0] - '0')
			w.add(ev{kind: 0, thread: t, clock: clock.Now()})
			vrt.Yield()
			w.resumed(t)
			rw.WriteHeader(code)
		})
		cb, err := cbreaker.New(h, "NetworkErrorRatio() > 0.5", cbreaker.FallbackDuration(fb), cbreaker.RecoveryDuration(rc), cbreaker.CheckPeriod(100*time.Millisecond), cbreaker.Logger(transitionLogger{w}))
		if err != nil {
			panic(err)
		}
		w.cb = cb
		inst := &sched.Instance{Names: []string{"B-slow", "C-trips", "clock", "A1-starts-recovery", "A-arrives", "D-late"}}
		inst.Bodies = []func(){
			func() { w.request(0) },
			func() { w.request(1) },
			func() {
				clock.VerifAdvance(fb) // the fallback period of the first trip is over
				vrt.Yield()
				clock.VerifAdvance(300 * time.Millisecond)
				vrt.Yield()
				clock.VerifAdvance(2 * time.Second)
			},
			func() { w.request(3) },
			func() { w.request(4) },
			func() { w.request(5); w.request(6) },
		}
		inst.Check = func(x *vrt.Exec) []vrt.Failure { return w.shieldedFor(prop, fb) }
		inst.Outcome = func() string {
			var sb strings.Builder
			for i := 0; i < w.n; i++ {
				if w.evs[i].kind < 2 {
					fmt.Fprintf(&sb, "%d%c", w.evs[i].thread, "pr"[w.evs[i].kind])
				} else if w.evs[i].kind == 2 {
					sb.WriteString(w.evs[i].state[:1])
				}
			}
			return sb.String()
		}
		return inst
	}
	return sc
}

// recoveryRace: the breaker has tripped and the fallback period is over; three
// requests arrive while the clock thread moves through the recovery period. The
// pass/refuse decisions, in decision order, must obey the ramp.
func recoveryRace(nreq, bound int, final int) *sched.Scenario {
	sc := &sched.Scenario{Name: fmt.Sprintf("breaker-recovery-race/requests=%d/bound=%d/code=%d", nreq, bound, final), Bound: bound}
	sc.New = func() *sched.Instance {
		clock.VerifInstall(base, nil)
		w := &cworld{}
		code := 502
		w.cb = newBreaker(w, &code)
		// sequential preparation (scheduler inactive): trip, wait out the fallback, start recovery,
		// spend most of the ramp refusing
		w.request(7)
		clock.VerifAdvance(cFallback)
		w.request(7) // starts recovery (refused at ramp 0)
		recStart := clock.Now()
		clock.VerifAdvance(cRecovery * 3 / 4)
		code = final
		w.n = 0
		passed, refused := 0, 1
		inst := &sched.Instance{}
		for t := 0; t < nreq; t++ {
			t := t
			inst.Names = append(inst.Names, fmt.Sprintf("req%d", t))
			inst.Bodies = append(inst.Bodies, func() { w.request(t); w.request(t) })
		}
		inst.Names = append(inst.Names, "clock")
		inst.Bodies = append(inst.Bodies, func() {
			clock.VerifAdvance(cRecovery / 8)
			vrt.Yield()
			clock.VerifAdvance(cRecovery / 16)
		})
		inst.Check = func(x *vrt.Exec) []vrt.Failure {
			var f []vrt.Failure
			R := int64(cRecovery)
			state := "recovering"
			for i := 0; i < w.n; i++ {
				e := w.evs[i]
				if e.kind == 2 {
					if e.state != "recovering" {
						state = e.state
					}
					continue
				}
				if e.kind == 3 || e.kind == 4 {
					continue // (resumption and announced-transition events are not admission decisions)
				}
				if state != "recovering" {
					break // a re-trip or the end of recovery: the ramp no longer applies
				}
				E := int64(e.clock.Sub(recStart))
				if E > R {
					break
				}
				if e.kind == 0 {
					passed++
					if int64(passed)*2*R > int64(passed+refused)*E {
						f = append(f, vrt.Failure{Key: "C12:ramp-exceeded:concurrent", Detail: fmt.Sprintf("decision %d: %d of %d requests passed at elapsed %v of %v", i, passed, passed+refused, time.Duration(E), cRecovery)})
						break
					}
				} else {
					if int64(passed+1)*2*R < int64(passed+refused+1)*E {
						f = append(f, vrt.Failure{Key: "C12:refused-below-ramp:concurrent", Detail: fmt.Sprintf("decision %d: refused although %d/%d is below the ramp at elapsed %v of %v", i, passed+1, passed+refused+1, time.Duration(E), cRecovery)})
						break
					}
					refused++
				}
			}
			return f
		}
		inst.Outcome = func() string {
			var sb strings.Builder
			for i := 0; i < w.n; i++ {
				if w.evs[i].kind < 2 {
					fmt.Fprintf(&sb, "%c", "pr"[w.evs[i].kind])
				}
			}
			return sb.String() + "/" + stateOf(w.cb)
		}
		return inst
	}
	return sc
}

// mixedRace (C18): one failing and two healthy responses complete around a clock step.
// If the breaker is observed tripped, the condition must be true over SOME admissible set
// of recorded responses: at least those whose requests had returned (observing a state other
// than tripped) before, plus the tripping one; at most those whose handlers had finished.
func mixedRace(bound int) *sched.Scenario {
	sc := &sched.Scenario{Name: fmt.Sprintf("breaker-mixed-race/bound=%d", bound), Bound: bound}
	codes := []int{502, 200, 200}
	sc.New = func() *sched.Instance {
		clock.VerifInstall(base, nil)
		w := &cworld{}
		h := http.HandlerFunc(func(rw http.ResponseWriter, r *http.Request) {
			t := int(r.Header.Get("T")[0] - '0')
			w.add(ev{kind: 0, thread: t, clock: clock.Now()})
			vrt.Yield()
			w.resumed(t)
			rw.WriteHeader(codes[t])
		})
		cb, err := cbreaker.New(h, "NetworkErrorRatio() > 0.5", cbreaker.FallbackDuration(cFallback), cbreaker.RecoveryDuration(cRecovery),
			cbreaker.CheckPeriod(100*time.Millisecond), cbreaker.OnTripped(eff{w, true}), cbreaker.Logger(transitionLogger{w}))
		if err != nil {
			panic(err)
		}
		w.cb = cb
		inst := &sched.Instance{Names: []string{"F-502", "H1-200", "H2-200", "clock"}}
		inst.Bodies = []func(){
			func() { w.request(0) }, func() { w.request(1) }, func() { w.request(2) },
			func() {
				clock.VerifAdvance(150 * time.Millisecond)
				vrt.Yield()
				clock.VerifAdvance(150 * time.Millisecond)
			},
		}
		inst.Check = func(x *vrt.Exec) []vrt.Failure {
			k := -1
			for i := 0; i < w.n; i++ {
				if w.evs[i].kind == 2 && w.evs[i].state == "tripped" {
					k = i
					break
				}
			}
			if k < 0 {
				return nil
			}
			must, may := map[int]bool{w.evs[k].thread: true}, map[int]bool{}
			for i := 0; i < k; i++ {
				switch w.evs[i].kind {
				case 2:
					must[w.evs[i].thread] = true
				case 3:
					may[w.evs[i].thread] = true
				}
			}
			var opt []int
			for t := range may {
				if !must[t] {
					opt = append(opt, t)
				}
			}
			for mask := 0; mask < 1<<len(opt); mask++ {
				errs, total := 0, 0
				count := func(t int) {
					total++
					if codes[t] == 502 {
						errs++
					}
				}
				for t := range must {
					count(t)
				}
				for i, t := range opt {
					if mask&(1<<i) != 0 {
						count(t)
					}
				}
				if total > 0 && float64(errs)/float64(total) > 0.5 {
					return nil // an admissible reading makes the condition true
				}
			}
			return []vrt.Failure{{Key: "C18:tripped-with-condition-false:concurrent",
				Detail: fmt.Sprintf("the breaker tripped although NetworkErrorRatio() > 0.5 is false over every admissible set of recorded responses (certainly recorded: threads %v, possibly: %v; codes %v)", keys(must), opt, codes)}}
		}
		inst.Outcome = func() string {
			var sb strings.Builder
			for i := 0; i < w.n; i++ {
				if w.evs[i].kind == 2 {
					fmt.Fprintf(&sb, "%d%s", w.evs[i].thread, w.evs[i].state[:1])
				}
			}
			return sb.String()
		}
		return inst
	}
	return sc
}

// skewRace (C05): one failing request is in flight; the clock moves by seconds while its completion is on its way
// to the breaker's lock; later the clock moves to 2s before the end of the fallback period counted FROM THE TRIP
// (which the breaker announces), and two more requests arrive 200ms apart with a recovery period of 100ms: were the
// shield armed from an earlier clock reading it would already be over.
func skewRace(prop string, bound int) *sched.Scenario {
	sc := &sched.Scenario{Name: fmt.Sprintf("breaker-trip-clock-skew/bound=%d", bound), Bound: bound}
	const fb, rc = 10 * time.Second, 100 * time.Millisecond
	sc.New = func() *sched.Instance {
		clock.VerifInstall(base, nil)
		w := &cworld{}
		h := http.HandlerFunc(func(rw http.ResponseWriter, r *http.Request) {
			t := int(r.Header.Get("T")[0] - '0')
			w.add(ev{kind: 0, thread: t, clock: clock.Now()})
			vrt.Yield()
			w.resumed(t)
			if t == 1 {
				rw.WriteHeader(502)
				return
			}
			rw.WriteHeader(200)
		})
		cb, err := cbreaker.New(h, "NetworkErrorRatio() > 0.5", cbreaker.FallbackDuration(fb), cbreaker.RecoveryDuration(rc), cbreaker.CheckPeriod(100*time.Millisecond), cbreaker.Logger(transitionLogger{w}))
		if err != nil {
			panic(err)
		}
		w.cb = cb
		inst := &sched.Instance{Names: []string{"failing", "clock", "late"}}
		inst.Bodies = []func(){
			func() { w.request(1) },
			func() {
				vrt.Yield()
				clock.VerifAdvance(5 * time.Second)
				vrt.Yield()
				clock.VerifAdvance(8 * time.Second)
			},
			func() {
				vrt.Yield()
				w.request(3)
				clock.VerifAdvance(200 * time.Millisecond)
				w.request(4)
			},
		}
		inst.Check = func(x *vrt.Exec) []vrt.Failure { return w.shieldedFor(prop, fb) }
		inst.Outcome = func() string {
			var sb strings.Builder
			for i := 0; i < w.n; i++ {
				if w.evs[i].kind == 4 {
					fmt.Fprintf(&sb, "%s@%v ", w.evs[i].state, w.evs[i].clock.Sub(base))
				}
			}
			return sb.String()
		}
		return inst
	}
	return sc
}

// standbyRace (C18): the breaker has tripped, the fallback period is over, recovery has begun and its period is
// over as well (sequential preparation). Then several requests arrive at once while the clock keeps moving: the
// breaker returns to standby ONCE - the on-standby side effect runs exactly once, the on-tripped one not at all.
func standbyRace(prop string, nreq, bound int) *sched.Scenario {
	sc := &sched.Scenario{Name: fmt.Sprintf("breaker-standby-race/requests=%d/bound=%d", nreq, bound), Bound: bound}
	sc.New = func() *sched.Instance {
		clock.VerifInstall(base, nil)
		w := &cworld{}
		code := 502
		w.cb = newBreaker(w, &code)
		w.request(0) // trips
		clock.VerifAdvance(cFallback + time.Second)
		code = 200
		w.request(0) // recovery begins
		clock.VerifAdvance(cRecovery + time.Second)
		prepared := stateOf(w.cb) == "recovering" // (the side effects themselves run as threads of their own)
		inst := &sched.Instance{}
		for i := 0; i < nreq; i++ {
			t := i + 1
			inst.Names = append(inst.Names, fmt.Sprintf("r%d", t))
			inst.Bodies = append(inst.Bodies, func() { w.request(t) })
		}
		inst.Names = append(inst.Names, "clock")
		inst.Bodies = append(inst.Bodies, func() {
			for k := 0; k < 2; k++ {
				vrt.Yield()
				clock.VerifAdvance(time.Millisecond)
			}
		})
		inst.Check = func(x *vrt.Exec) []vrt.Failure {
			if !prepared {
				return []vrt.Failure{{Key: prop + ":harness:breaker-not-at-the-end-of-recovery", Detail: w.cb.String()}}
			}
			if w.standby != 1 || w.tripped != 1 {
				return []vrt.Failure{{Key: prop + ":side-effect-count:return-to-standby", Detail: fmt.Sprintf("%d healthy requests overlapped the end of the recovery period: OnStandby ran %d times (want 1), OnTripped %d times in total (want 1, from the initial trip); final %s", nreq, w.standby, w.tripped, w.cb.String())}}
			}
			if st := stateOf(w.cb); st != "standby" {
				return []vrt.Failure{{Key: prop + ":not-standby-after-recovery:concurrent", Detail: "final " + w.cb.String()}}
			}
			return nil
		}
		inst.Outcome = func() string { return fmt.Sprint(w.standby, w.tripped) }
		return inst
	}
	return sc
}

// codeRatioRace (C18): after one healthy response, the FIRST two responses with status 503 the breaker has ever
// seen complete concurrently, inside one check period (nothing is evaluated meanwhile). At quiescence the check
// period elapses and one more healthy response arrives, alone: the condition is evaluated over exactly 200, 503,
// 503 (, 200) - it holds whichever way the evaluation is ordered against the last recording - and the breaker
// must trip. Every recorded response counts, also the two that raced to be the first of their status code.
func codeRatioRace(prop string, bound int) *sched.Scenario {
	sc := &sched.Scenario{Name: fmt.Sprintf("breaker-first-responses-of-a-code-race/bound=%d", bound), Bound: bound}
	sc.New = func() *sched.Instance {
		clock.VerifInstall(base, nil)
		codes := []int{200, 503, 503, 200}
		h := http.HandlerFunc(func(rw http.ResponseWriter, r *http.Request) { rw.WriteHeader(codes[int(r.Header.Get("T")[0]-'0')]) })
		cb, err := cbreaker.New(h, "ResponseCodeRatio(500, 600, 0, 600) > 0.35", cbreaker.FallbackDuration(cFallback), cbreaker.RecoveryDuration(cRecovery), cbreaker.CheckPeriod(100*time.Millisecond))
		if err != nil {
			panic(err)
		}
		do := func(t int) int {
			rec := httptest.NewRecorder()
			req := httptest.NewRequest("GET", "http://x/", nil)
			req.Header.Set("T", fmt.Sprint(t))
			cb.ServeHTTP(rec, req)
			return rec.Code
		}
		first := do(0)
		prepared := first == 200 && stateOf(cb) == "standby"
		var got [2]int
		inst := &sched.Instance{Names: []string{"F1-503", "F2-503"}}
		inst.Bodies = []func(){func() { got[0] = do(1) }, func() { got[1] = do(2) }}
		inst.Check = func(x *vrt.Exec) []vrt.Failure {
			if !prepared || got[0] != 503 || got[1] != 503 || stateOf(cb) != "standby" {
				return []vrt.Failure{{Key: prop + ":harness:first-responses-race-not-prepared", Detail: fmt.Sprintf("first=%d got=%v %s", first, got, cb.String())}}
			}
			clock.VerifAdvance(150 * time.Millisecond)
			last := do(3)
			if st := stateOf(cb); st != "tripped" {
				return []vrt.Failure{{Key: prop + ":condition-held-but-not-tripped:concurrent-first-responses-of-a-code",
					Detail: fmt.Sprintf("recorded: 200, then two 503 completing concurrently (the first two of that code), then - a check period later, alone - a 200 (answered %d): ResponseCodeRatio(500,600,0,600) is 2/4 (2/3 before the last recording) > 0.35, yet the breaker is %s", last, cb.String())}}
			}
			return nil
		}
		inst.Outcome = func() string { return stateOf(cb) }
		return inst
	}
	return sc
}

func keys(m map[int]bool) []int {
	var out []int
	for k := range m {
		out = append(out, k)
	}
	return out
}

func Scenarios(prop, tier string) []*sched.Scenario {
	b := 2
	if tier == "thorough" {
		b = 3
	}
	switch prop {
	case "C12":
		return []*sched.Scenario{recoveryRace(3, b, 200), recoveryRace(2, b+1, 200), recoveryRace(3, b, 502), retripRaceFor("C12", b)}
	case "C05":
		return []*sched.Scenario{tripRace(prop, 3, b), tripRace(prop, 2, b+1), retripRace(b), skewRace(prop, b+1)}
	case "C18":
		return []*sched.Scenario{tripRace(prop, 3, b), tripRace(prop, 2, b+1), mixedRace(b + 1), standbyRace(prop, 2, b+1), standbyRace(prop, 3, b), codeRatioRace(prop, b+1)}
	default:
		return []*sched.Scenario{tripRace(prop, 3, b), tripRace(prop, 2, b+1)}
	}
}

func RunSched(tier string, sh lib.Shard, rep *lib.Report) {
	prop := rep.Property
	rep.Rule = "stateless DFS over schedules (preemption-bounded) of overlapping requests with an in-flight yield inside the protected handler plus a clock thread, on the real CircuitBreaker: around a trip (C05/C18) and inside the recovery ramp from a prepared state (C12); non-trivial = schedules with a preemption"
	rep.Require("executions_with_preemption")
	var names []string
	for _, sc := range Scenarios(prop, tier) {
		names = append(names, sc.Name)
		e := sched.NewExplorer(rep, sh, "cbs")
		st := e.Explore(sc)
		rep.Nontrivial += st.WithPreemption
		if !st.Complete {
			rep.Exhaustive = false
		}
	}
	rep.Bounds["scenarios"] = names
	// keep only this property's violations
	keep := rep.Violations[:0]
	for _, v := range rep.Violations {
		if strings.HasPrefix(v.Key, prop+":") {
			keep = append(keep, v)
		}
	}
	rep.Violations = keep
}

func FindSched(prop, name string) *sched.Scenario {
	for _, p := range []string{prop, "C05", "C12"} {
		for _, tier := range []string{"quick", "thorough"} {
			for _, sc := range Scenarios(p, tier) {
				if sc.Name == name {
					return sc
				}
			}
		}
	}
	return nil
}

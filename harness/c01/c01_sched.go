//go:build verif

package c01

import (
	"fmt"
	"strings"

	"github.com/vulcand/oxy/v2/internal/verif/vrt"
	"github.com/vulcand/oxy/v2/roundrobin"
	"github.com/vulcand/oxy/v2/zverif/lib"
	"github.com/vulcand/oxy/v2/zverif/sched"
)

type cworld struct {
	seq [64]int // combined selection sequence in completion order (server index), norace
	n   int
}

//go:norace
func (w *cworld) record(srv int) {
	w.seq[w.n] = srv
	w.n++
}

// concurrent selectors: `threads` threads make `calls` NextServer() calls each on a
// fixed pool, after `warm` sequential selections.
func scenario(pool []int, threads, calls, warm int, verbose bool) *sched.Scenario {
	name := fmt.Sprintf("rr-concurrent/pool=%v/threads=%d/calls=%d/warm=%d/verbose=%v", pool, threads, calls, warm, verbose)
	sc := &sched.Scenario{Name: name, Bound: -1, Info: map[string]any{"pool": pool, "threads": threads, "calls": calls, "warm": warm}}
	sc.New = func() *sched.Instance {
		var opts []roundrobin.LBOption
		if verbose {
			opts = append(opts, roundrobin.Verbose(true)) // the logging paths are code too
		}
		s := newSys(opts...)
		for i, w := range pool {
			s.rr.UpsertServer(serverURL(i), roundrobin.Weight(w))
			if w == 0 {
				s.rr.UpsertServer(serverURL(i), roundrobin.Weight(0))
			}
		}
		w := &cworld{}
		idx := func(host string) int { return int(host[1] - '1') }
		for k := 0; k < warm; k++ {
			u, err := s.rr.NextServer()
			if err != nil {
				panic(err)
			}
			w.record(idx(u.Host))
		}
		inst := &sched.Instance{}
		for t := 0; t < threads; t++ {
			inst.Names = append(inst.Names, fmt.Sprintf("sel%d", t))
			inst.Bodies = append(inst.Bodies, func() {
				for c := 0; c < calls; c++ {
					u, err := s.rr.NextServer()
					if err != nil {
						vrt.Fail("C01:rr-concurrent:selection-failed", err.Error())
						return
					}
					// no scheduling point between the selection (under the balancer's lock) and this record
					w.record(idx(u.Host))
				}
			})
		}
		sum, g := 0, 0
		for _, x := range pool {
			sum += x
			g = gcd(g, x)
		}
		W := sum / g
		inst.Check = func(x *vrt.Exec) []vrt.Failure {
			var fails []vrt.Failure
			for off := 0; off+W <= w.n; off++ {
				cnt := make([]int, len(pool))
				for _, srv := range w.seq[off : off+W] {
					cnt[srv]++
				}
				for i, wt := range pool {
					if cnt[i] != wt/g {
						fails = append(fails, vrt.Failure{Key: "C01:rr-concurrent:disproportionate-window",
							Detail: fmt.Sprintf("pool %v: combined sequence %v, window at offset %d chose s%d %d times, want %d", pool, w.seq[:w.n], off, i+1, cnt[i], wt/g)})
						return fails
					}
				}
			}
			if w.n != warm+threads*calls {
				fails = append(fails, vrt.Failure{Key: "C01:rr-concurrent:lost-selection", Detail: fmt.Sprintf("%d selections recorded, want %d", w.n, warm+threads*calls)})
			}
			return fails
		}
		inst.Outcome = func() string {
			var sb strings.Builder
			for _, v := range w.seq[:w.n] {
				fmt.Fprintf(&sb, "%d", v)
			}
			return sb.String()
		}
		return inst
	}
	return sc
}

func Scenarios(tier string) []*sched.Scenario {
	pools := [][]int{{2, 1}, {1, 1, 0}, {3, 1}, {2, 2, 1}, {4, 2}}
	var out []*sched.Scenario
	for _, p := range pools {
		for warm := 0; warm <= 2; warm++ {
			out = append(out, scenario(p, 2, 3, warm, false))
			out = append(out, scenario(p, 3, 2, warm, warm == 1))
			out = append(out, scenario(p, 2, 3, warm, true))
			if tier == "thorough" {
				out = append(out, scenario(p, 3, 3, warm, false))
				out = append(out, scenario(p, 3, 2, warm, true))
				out = append(out, scenario(p, 4, 2, warm, warm == 0))
			}
		}
	}
	return out
}

func RunSched(tier string, sh lib.Shard, rep *lib.Report) {
	scs := Scenarios(tier)
	rep.Bounds["preemption_bound"] = "unbounded (all interleavings)"
	rep.Bounds["scenarios"] = len(scs)
	rep.Rule = "stateless DFS over every interleaving of 2-4 threads making 2-3 NextServer() calls each on fixed pools, after 0-2 warm-up selections; the combined sequence in completion order must satisfy the window counts at every offset; non-trivial = schedule with a preemption"
	rep.Require("executions_with_preemption")
	for i, sc := range scs {
		if !sh.Mine(i) {
			continue
		}
		e := sched.NewExplorer(rep, lib.Shard{I: 0, N: 1}, "c01s")
		st := e.Explore(sc)
		rep.Nontrivial += st.WithPreemption
		if !st.Complete {
			rep.Exhaustive = false
		}
	}
}

func Find(prop, name string) *sched.Scenario {
	for _, tier := range []string{"quick", "thorough"} {
		for _, sc := range Scenarios(tier) {
			if sc.Name == name {
				return sc
			}
		}
	}
	return nil
}

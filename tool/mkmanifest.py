#!/usr/bin/env python3
"""Regenerates /verif/MANIFEST.json from tool/checks.py (single source of truth)."""
import json, os, sys
sys.path.insert(0, os.path.dirname(os.path.abspath(__file__)))
import checks

V = "/verif"
m = dict(
    version=1,
    setup_cmd="cd /verif && ./vcheck setup",
    hooks=dict(
        guard="verif",
        enable="no file of /repo is modified: checks generate a go build -overlay from /repo's current working tree (sync->shim import rewrite, added files carry //go:build verif) and build the harness with -tags verif",
        baseline_off_cmd="cd /repo && GOFLAGS=-mod=mod GOPROXY=off GOSUMDB=off GOTOOLCHAIN=local go test -mod=mod -json -vet=off -count=1 -timeout 25m ./...",
        source_commits=[],
        add_only=True,
    ),
    engines=checks.ENGINES,
    checks=[],
    notes=checks.NOTES,
    not_applicable=checks.NOT_APPLICABLE,
)
for pid in sorted(checks.CHECKS):
    c = checks.CHECKS[pid]
    m["checks"].append(dict(
        property_id=pid,
        quick_cmd="cd /verif && ./vcheck %s quick" % pid,
        thorough_cmd="cd /verif && ./vcheck %s thorough" % pid,
        evidence_file="/verif/evidence/%s.json" % pid,
        replay_cmd_template="cd /verif && ./vcheck replay {path}",
        engine=c["engine"],
        level_claimed=dict(category=c["level"], text=c["text"], design_ref=c["design_ref"]),
        level_note=c["note"],
        technique=c["technique"],
    ))
json.dump(m, open(os.path.join(V, "MANIFEST.json"), "w"), indent=1)
print("MANIFEST.json: %d checks, %d not applicable" % (len(m["checks"]), len(m["not_applicable"])))

package lib

import (
	"bufio"
	"bytes"
	"context"
	"fmt"
	"io"
	"net"
	"net/http"
	"net/http/httptest"
	"net/url"
	"strings"
	"time"
)

// ParseRequest turns raw bytes into a server-side *http.Request exactly as
// net/http's server does (http.ReadRequest), so framing (Content-Length, chunked)
// and header canonicalisation are the real ones.
func ParseRequest(raw string) (*http.Request, error) {
	req, err := http.ReadRequest(bufio.NewReader(strings.NewReader(raw)))
	if err != nil {
		return nil, err
	}
	req.RemoteAddr = "192.0.2.1:1234"
	return req.WithContext(context.Background()), nil
}

// RawRequest renders a request with the given framing. chunk <= 0 means
// Content-Length framing, otherwise chunked transfer-encoding with that chunk size.
func RawRequest(method, target string, headers [][2]string, body []byte, chunk int) string {
	var sb strings.Builder
	fmt.Fprintf(&sb, "%s %s HTTP/1.1\r\nHost: client.example\r\n", method, target)
	for _, h := range headers {
		fmt.Fprintf(&sb, "%s: %s\r\n", h[0], h[1])
	}
	if chunk <= 0 {
		if len(body) > 0 || method == "POST" || method == "PUT" {
			fmt.Fprintf(&sb, "Content-Length: %d\r\n", len(body))
		}
		sb.WriteString("\r\n")
		sb.Write(body)
		return sb.String()
	}
	sb.WriteString("Transfer-Encoding: chunked\r\n\r\n")
	for i := 0; i < len(body); i += chunk {
		j := i + chunk
		if j > len(body) {
			j = len(body)
		}
		fmt.Fprintf(&sb, "%x\r\n", j-i)
		sb.Write(body[i:j])
		sb.WriteString("\r\n")
	}
	sb.WriteString("0\r\n\r\n")
	return sb.String()
}

// Recorder is an httptest.ResponseRecorder that also records contract breaches:
// a panic inside ServeHTTP (e.g. net/http's "invalid WriteHeader code") is caught
// by Serve and reported, as a real server would abort the connection.
type Recorder struct {
	*httptest.ResponseRecorder
	Panic any
}

// Serve runs h on req and returns what a client would have received.
func Serve(h http.Handler, req *http.Request) *Recorder {
	r := &Recorder{ResponseRecorder: httptest.NewRecorder()}
	func() {
		defer func() {
			if p := recover(); p != nil {
				r.Panic = p
			}
		}()
		h.ServeHTTP(r.ResponseRecorder, req)
	}()
	return r
}

// Server is a real net/http server on loopback.
type Server struct {
	Addr string
	srv  *http.Server
	ln   net.Listener
}

func StartServer(h http.Handler) *Server {
	ln, err := net.Listen("tcp", "127.0.0.1:0")
	if err != nil {
		panic(err)
	}
	s := &Server{Addr: ln.Addr().String(), ln: ln, srv: &http.Server{Handler: h, ErrorLog: nil}}
	s.srv.ErrorLog = quietLogger()
	go s.srv.Serve(ln)
	return s
}

func (s *Server) Close() { s.srv.Close() }

// RawExchange writes raw request bytes on a fresh connection and reads everything
// the server sends until it closes the connection or the response is complete
// (the request must carry "Connection: close"). watchdog bounds the whole
// exchange; hitting it is reported as hung=true, never as a property violation by
// itself (callers re-run before believing it).
// HalfCloseAfterRequest makes RawExchange half-close the connection once the request is written.
var HalfCloseAfterRequest bool

func RawExchange(addr string, raw []byte, watchdog time.Duration) (resp []byte, hung bool, err error) {
	c, err := net.DialTimeout("tcp", addr, watchdog)
	if err != nil {
		return nil, false, err
	}
	defer c.Close()
	c.SetDeadline(time.Now().Add(watchdog))
	if _, err := c.Write(raw); err != nil {
		return nil, false, err
	}
	if HalfCloseAfterRequest {
		// the client has nothing more to send: it shuts down its sending half and keeps reading
		if tc, ok := c.(*net.TCPConn); ok {
			tc.CloseWrite()
		}
	}
	var buf bytes.Buffer
	_, err = io.Copy(&buf, c)
	if ne, ok := err.(net.Error); ok && ne.Timeout() {
		return buf.Bytes(), true, nil
	}
	return buf.Bytes(), false, nil
}

// ParseResponses parses ALL responses found in a byte stream (exactly one is
// expected for one request; more than one means bytes of a discarded attempt or a
// second status line leaked).
func ParseResponses(raw []byte, method string) ([]*http.Response, [][]byte, error) {
	br := bufio.NewReader(bytes.NewReader(raw))
	var out []*http.Response
	var bodies [][]byte
	for {
		if _, err := br.Peek(1); err != nil {
			return out, bodies, nil
		}
		resp, err := http.ReadResponse(br, &http.Request{Method: method})
		if err != nil {
			return out, bodies, err
		}
		b, err := io.ReadAll(resp.Body)
		if err != nil {
			return out, bodies, err
		}
		out = append(out, resp)
		bodies = append(bodies, b)
	}
}

// ReuseURL is what a caller may do with ITS url.URL value once an administration call (UpsertServer, RemoveServer)
// has returned: overwrite it for the next use (the loader pattern "one url.URL, set Host per backend"). The
// library must have kept a copy.
func ReuseURL(u *url.URL) {
	*u = url.URL{Scheme: "ftp", User: url.User("reused"), Host: "reused.invalid:1", Path: "/reused-by-the-caller", RawQuery: "reused=1", Fragment: "reused"}
}

// BrokenWriter is a ResponseWriter whose connection to the client breaks after
// FailAfter body bytes: further writes return an error, as net/http's do when the
// client has gone away.
type BrokenWriter struct {
	H         http.Header
	Code      int
	FailAfter int
	Written   int
}

func (b *BrokenWriter) Header() http.Header { return b.H }
func (b *BrokenWriter) WriteHeader(c int)   { b.Code = c }
func (b *BrokenWriter) Write(p []byte) (int, error) {
	room := b.FailAfter - b.Written
	if room <= 0 {
		return 0, io.ErrClosedPipe
	}
	if len(p) > room {
		b.Written += room
		return room, io.ErrClosedPipe
	}
	b.Written += len(p)
	return len(p), nil
}

// Package lib holds the machinery shared by all checks: the report format the
// workers hand to the orchestrator, the reflective state dump, and the
// explicit-state search (xstate.go).
package lib

import (
	"encoding/json"
	"fmt"
	"os"
	"sort"
	"strconv"
	"strings"
	"time"
)

// Violation is one counterexample. Key identifies the *class* of the failing
// input/history (it is what known_findings.json is matched against), Detail
// says expected vs. observed, Replay is everything needed to re-execute it.
type Violation struct {
	Key    string `json:"key"`
	Detail string `json:"detail"`
	Replay any    `json:"replay"`
}

// Report is what one worker (one part of one check, one shard) produced.
type Report struct {
	Property    string         `json:"property"`
	Part        string         `json:"part"`
	Shard       string         `json:"shard"`
	States      int            `json:"states"`
	Transitions int            `json:"transitions"`
	Evaluations int            `json:"evaluations"`
	Nontrivial  int            `json:"distinct_nontrivial"`
	Exhaustive  bool           `json:"exhaustive"`
	Bounds      map[string]any `json:"bounds"`
	Counters    map[string]int `json:"counters"`
	Outcomes    map[string]int `json:"outcomes"`
	Samples     []any          `json:"samples"`
	Violations  []Violation    `json:"violations"`
	Rule        string         `json:"rule"`
	Assumptions []string       `json:"assumptions"`
	// Required names counters that must be non-zero for the run not to be vacuous.
	Required []string `json:"required_counters"`
	// Internal trouble (nondeterminism, unsound abstraction): exit 3.
	Distrust []string `json:"distrust"`

	// StateHashes (8 bytes per visited state) go to <out>.states so that the
	// orchestrator can count DISTINCT states across workers that re-discover
	// shared states from different roots.
	StateHashes []byte `json:"-"`

	seenViol map[string]bool
}

func NewReport(property, part string) *Report {
	return &Report{
		Property: property, Part: part, Exhaustive: true,
		Bounds: map[string]any{}, Counters: map[string]int{}, Outcomes: map[string]int{},
		seenViol: map[string]bool{},
	}
}

func (r *Report) Count(name string)       { r.Counters[name]++ }
func (r *Report) Add(name string, n int)  { r.Counters[name] += n }
func (r *Report) Outcome(o string)        { r.Outcomes[o]++ }
func (r *Report) Require(names ...string) { r.Required = append(r.Required, names...) }
func (r *Report) Assume(s ...string)      { r.Assumptions = append(r.Assumptions, s...) }
func (r *Report) DistrustF(f string, a ...any) {
	if len(r.Distrust) < 20 {
		r.Distrust = append(r.Distrust, fmt.Sprintf(f, a...))
	}
}

// Sample keeps up to max examples of explored cases.
func (r *Report) Sample(max int, s any) {
	if len(r.Samples) < max {
		r.Samples = append(r.Samples, s)
	}
}

// Violate records a violation; only the first (shortest, since searches are
// breadth-first / simplest-first) per key is kept, but every hit is counted.
func (r *Report) Violate(key, detail string, replay any) {
	r.Counters["violations:"+key]++
	if r.seenViol[key] {
		return
	}
	r.seenViol[key] = true
	r.Violations = append(r.Violations, Violation{Key: key, Detail: detail, Replay: replay})
}

func (r *Report) Write(path string) {
	b, err := json.MarshalIndent(r, "", " ")
	if err != nil {
		panic(err)
	}
	if path == "" || path == "-" {
		os.Stdout.Write(b)
		os.Stdout.WriteString("\n")
		return
	}
	if err := os.WriteFile(path, b, 0o644); err != nil {
		panic(err)
	}
	if len(r.StateHashes) > 0 {
		if err := os.WriteFile(path+".states", r.StateHashes, 0o644); err != nil {
			panic(err)
		}
	}
}

// Shard describes this worker's slice of a top-level work list.
type Shard struct{ I, N int }

func ParseShard(s string) Shard {
	if s == "" {
		return Shard{0, 1}
	}
	p := strings.Split(s, "/")
	i, _ := strconv.Atoi(p[0])
	n, _ := strconv.Atoi(p[1])
	if n <= 0 || i < 0 || i >= n {
		panic("bad shard " + s)
	}
	return Shard{i, n}
}

// Mine tells whether top-level work item k belongs to this shard.
func (s Shard) Mine(k int) bool { return k%s.N == s.I }

func (s Shard) String() string { return fmt.Sprintf("%d/%d", s.I, s.N) }

func SortedKeys[V any](m map[string]V) []string {
	ks := make([]string, 0, len(m))
	for k := range m {
		ks = append(ks, k)
	}
	sort.Strings(ks)
	return ks
}

// Deadline is the worker's internal time budget (zero = none). Searches that
// hit it stop, clear Exhaustive and report the bound they completed.
var Deadline time.Time

func Expired() bool { return !Deadline.IsZero() && time.Now().After(Deadline) }

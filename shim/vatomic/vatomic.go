//go:build verif

// Package vatomic replaces "sync/atomic" in the oxy packages under test (import
// rewrite in the build overlay): every atomic operation is announced to the
// scheduler as a scheduling point and then performed by the real sync/atomic, so the
// race detector still sees the real synchronisation.
package vatomic

import (
	"sync/atomic"
	"unsafe"

	"github.com/vulcand/oxy/v2/internal/verif/vrt"
)

func pt() { vrt.PointNamed("atomic") }

func AddInt32(addr *int32, delta int32) int32         { pt(); return atomic.AddInt32(addr, delta) }
func AddInt64(addr *int64, delta int64) int64         { pt(); return atomic.AddInt64(addr, delta) }
func AddUint32(addr *uint32, delta uint32) uint32     { pt(); return atomic.AddUint32(addr, delta) }
func AddUint64(addr *uint64, delta uint64) uint64     { pt(); return atomic.AddUint64(addr, delta) }
func AddUintptr(addr *uintptr, delta uintptr) uintptr { pt(); return atomic.AddUintptr(addr, delta) }

func LoadInt32(addr *int32) int32       { pt(); return atomic.LoadInt32(addr) }
func LoadInt64(addr *int64) int64       { pt(); return atomic.LoadInt64(addr) }
func LoadUint32(addr *uint32) uint32    { pt(); return atomic.LoadUint32(addr) }
func LoadUint64(addr *uint64) uint64    { pt(); return atomic.LoadUint64(addr) }
func LoadUintptr(addr *uintptr) uintptr { pt(); return atomic.LoadUintptr(addr) }
func LoadPointer(addr *unsafe.Pointer) unsafe.Pointer {
	pt()
	return atomic.LoadPointer(addr)
}

func StoreInt32(addr *int32, v int32)       { pt(); atomic.StoreInt32(addr, v) }
func StoreInt64(addr *int64, v int64)       { pt(); atomic.StoreInt64(addr, v) }
func StoreUint32(addr *uint32, v uint32)    { pt(); atomic.StoreUint32(addr, v) }
func StoreUint64(addr *uint64, v uint64)    { pt(); atomic.StoreUint64(addr, v) }
func StoreUintptr(addr *uintptr, v uintptr) { pt(); atomic.StoreUintptr(addr, v) }
func StorePointer(addr *unsafe.Pointer, v unsafe.Pointer) {
	pt()
	atomic.StorePointer(addr, v)
}

func SwapInt32(addr *int32, v int32) int32         { pt(); return atomic.SwapInt32(addr, v) }
func SwapInt64(addr *int64, v int64) int64         { pt(); return atomic.SwapInt64(addr, v) }
func SwapUint32(addr *uint32, v uint32) uint32     { pt(); return atomic.SwapUint32(addr, v) }
func SwapUint64(addr *uint64, v uint64) uint64     { pt(); return atomic.SwapUint64(addr, v) }
func SwapUintptr(addr *uintptr, v uintptr) uintptr { pt(); return atomic.SwapUintptr(addr, v) }
func SwapPointer(addr *unsafe.Pointer, v unsafe.Pointer) unsafe.Pointer {
	pt()
	return atomic.SwapPointer(addr, v)
}

func CompareAndSwapInt32(addr *int32, o, n int32) bool {
	pt()
	return atomic.CompareAndSwapInt32(addr, o, n)
}
func CompareAndSwapInt64(addr *int64, o, n int64) bool {
	pt()
	return atomic.CompareAndSwapInt64(addr, o, n)
}
func CompareAndSwapUint32(addr *uint32, o, n uint32) bool {
	pt()
	return atomic.CompareAndSwapUint32(addr, o, n)
}
func CompareAndSwapUint64(addr *uint64, o, n uint64) bool {
	pt()
	return atomic.CompareAndSwapUint64(addr, o, n)
}
func CompareAndSwapUintptr(addr *uintptr, o, n uintptr) bool {
	pt()
	return atomic.CompareAndSwapUintptr(addr, o, n)
}
func CompareAndSwapPointer(addr *unsafe.Pointer, o, n unsafe.Pointer) bool {
	pt()
	return atomic.CompareAndSwapPointer(addr, o, n)
}

type Int32 struct{ v atomic.Int32 }

func (x *Int32) Load() int32                    { pt(); return x.v.Load() }
func (x *Int32) Store(v int32)                  { pt(); x.v.Store(v) }
func (x *Int32) Add(d int32) int32              { pt(); return x.v.Add(d) }
func (x *Int32) Swap(v int32) int32             { pt(); return x.v.Swap(v) }
func (x *Int32) CompareAndSwap(o, n int32) bool { pt(); return x.v.CompareAndSwap(o, n) }

type Int64 struct{ v atomic.Int64 }

func (x *Int64) Load() int64                    { pt(); return x.v.Load() }
func (x *Int64) Store(v int64)                  { pt(); x.v.Store(v) }
func (x *Int64) Add(d int64) int64              { pt(); return x.v.Add(d) }
func (x *Int64) Swap(v int64) int64             { pt(); return x.v.Swap(v) }
func (x *Int64) CompareAndSwap(o, n int64) bool { pt(); return x.v.CompareAndSwap(o, n) }

type Uint32 struct{ v atomic.Uint32 }

func (x *Uint32) Load() uint32                    { pt(); return x.v.Load() }
func (x *Uint32) Store(v uint32)                  { pt(); x.v.Store(v) }
func (x *Uint32) Add(d uint32) uint32             { pt(); return x.v.Add(d) }
func (x *Uint32) Swap(v uint32) uint32            { pt(); return x.v.Swap(v) }
func (x *Uint32) CompareAndSwap(o, n uint32) bool { pt(); return x.v.CompareAndSwap(o, n) }

type Uint64 struct{ v atomic.Uint64 }

func (x *Uint64) Load() uint64                    { pt(); return x.v.Load() }
func (x *Uint64) Store(v uint64)                  { pt(); x.v.Store(v) }
func (x *Uint64) Add(d uint64) uint64             { pt(); return x.v.Add(d) }
func (x *Uint64) Swap(v uint64) uint64            { pt(); return x.v.Swap(v) }
func (x *Uint64) CompareAndSwap(o, n uint64) bool { pt(); return x.v.CompareAndSwap(o, n) }

type Bool struct{ v atomic.Bool }

func (x *Bool) Load() bool                    { pt(); return x.v.Load() }
func (x *Bool) Store(v bool)                  { pt(); x.v.Store(v) }
func (x *Bool) Swap(v bool) bool              { pt(); return x.v.Swap(v) }
func (x *Bool) CompareAndSwap(o, n bool) bool { pt(); return x.v.CompareAndSwap(o, n) }

type Value struct{ v atomic.Value }

func (x *Value) Load() any                    { pt(); return x.v.Load() }
func (x *Value) Store(v any)                  { pt(); x.v.Store(v) }
func (x *Value) Swap(v any) any               { pt(); return x.v.Swap(v) }
func (x *Value) CompareAndSwap(o, n any) bool { pt(); return x.v.CompareAndSwap(o, n) }

type Pointer[T any] struct{ v atomic.Pointer[T] }

func (x *Pointer[T]) Load() *T                    { pt(); return x.v.Load() }
func (x *Pointer[T]) Store(v *T)                  { pt(); x.v.Store(v) }
func (x *Pointer[T]) Swap(v *T) *T                { pt(); return x.v.Swap(v) }
func (x *Pointer[T]) CompareAndSwap(o, n *T) bool { pt(); return x.v.CompareAndSwap(o, n) }

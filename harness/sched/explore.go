//go:build verif

// Package sched is the stateless depth-first explorer of the E1 engine: it
// enumerates choice sequences of the vrt scheduler, bounded by the number of
// preemptions (or unbounded), running the real oxy code once per schedule.
package sched

import (
	"fmt"
	"os"
	"regexp"
	"sort"
	"strings"

	"github.com/vulcand/oxy/v2/internal/verif/vrt"
	"github.com/vulcand/oxy/v2/zverif/lib"
)

// Instance is one fresh copy of a scenario: real objects, thread bodies, oracle.
type Instance struct {
	Names  []string
	Bodies []func()
	// Check runs on the main goroutine at quiescence and reports oracle failures
	// (in addition to those recorded by vrt.Fail inside the threads).
	Check func(x *vrt.Exec) []vrt.Failure
	// Outcome is a signature of what this execution observed (vacuity control).
	Outcome func() string
}

type Scenario struct {
	Name string
	New  func() *Instance
	// Bound is the preemption bound; <0 = unbounded (all interleavings).
	Bound       int
	MaxPoints   int
	UnlockPoint bool
	// Guide (optional): thread ids taking the first steps, to reach a prepared state; the
	// exploration deviates only after these steps.
	Guide []vrt.GuideStep
	// Info is copied into replay artefacts.
	Info map[string]any
}

type Explorer struct {
	Rep      *lib.Report
	Shard    lib.Shard
	Part     string
	Binary   string
	RaceLog  string // file the race detector appends to ("" = not a race build)
	raceSize int64
	// ShardLevel: executions at tree level < ShardLevel are run by every worker
	// (to enumerate children) but counted by shard 0 only; subtrees rooted at
	// level ShardLevel are distributed round-robin.
	ShardLevel int
	counter    int
	Stats      Stats
}

type Stats struct {
	Executions, Points, WithPreemption, MaxPreemptions, Deadlocks, Horizons, MaxPointsSeen int
	Complete                                                                               bool
}

func NewExplorer(rep *lib.Report, sh lib.Shard, part string) *Explorer {
	e := &Explorer{Rep: rep, Shard: sh, Part: part, ShardLevel: 2, Binary: "vsched"}
	if p := os.Getenv("VERIF_RACELOG"); p != "" {
		e.RaceLog = fmt.Sprintf("%s.%d", p, os.Getpid())
		e.Binary = "vsched-race"
	}
	return e
}

func (e *Explorer) run(sc *Scenario, prefix []int) (*vrt.Exec, *Instance) {
	inst := sc.New()
	mp := sc.MaxPoints
	if mp == 0 {
		mp = 20000
	}
	x := vrt.Run(inst.Names, inst.Bodies, prefix, mp, sc.UnlockPoint)
	return x, inst
}

func sameInts(a, b []int) bool {
	if len(a) != len(b) {
		return false
	}
	for i := range a {
		if a[i] != b[i] {
			return false
		}
	}
	return true
}

func choices(x *vrt.Exec) []int {
	out := make([]int, len(x.Points))
	for i, p := range x.Points {
		out[i] = p.Chosen
	}
	return out
}

// Explore enumerates all schedules of sc within its bound.
func (e *Explorer) Explore(sc *Scenario) Stats {
	e.Stats = Stats{Complete: true}
	e.counter = 0
	// determinism self-check: the default schedule twice
	a, _ := e.run(sc, nil)
	b, _ := e.run(sc, nil)
	if !sameInts(a.Trace, b.Trace) {
		e.Rep.DistrustF("NONDETERMINISM scenario=%s: the default schedule produced two different traces", sc.Name)
		return e.Stats
	}
	e.checkRace(sc, nil, true) // races in the two warm-up runs are attributed to the default schedule
	var fixed []int
	if len(sc.Guide) > 0 {
		// turn the guide into a fixed choice prefix
		inst := sc.New()
		g := vrt.RunGuided(inst.Names, inst.Bodies, nil, sc.Guide, sc.MaxPoints, sc.UnlockPoint)
		if g.Diverged != "" || g.GuidedPoints == 0 {
			e.Rep.DistrustF("scenario=%s: the guide cannot be followed (%s)", sc.Name, g.Diverged)
			return e.Stats
		}
		fixed = choices(g)[:g.GuidedPoints]
	}
	e.explore(sc, fixed, nil, 0, 0)
	st := e.Stats
	e.Rep.Evaluations += st.Executions
	e.Rep.States += st.Points // scheduling points visited = scheduler states on the explored paths
	e.Rep.Transitions += st.Points
	e.Rep.Add("executions", st.Executions)
	e.Rep.Add("executions_with_preemption", st.WithPreemption)
	e.Rep.Add("deadlocks", st.Deadlocks)
	return st
}

func (e *Explorer) explore(sc *Scenario, prefix []int, parentTrace []int, level int, preBefore int) {
	if lib.Expired() {
		e.Stats.Complete = false
		e.Rep.Exhaustive = false
		e.Rep.Bounds[sc.Name+".deadline_hit"] = true
		return
	}
	if level == e.ShardLevel {
		idx := e.counter
		e.counter++
		if !e.Shard.Mine(idx) {
			return
		}
	}
	counted := level >= e.ShardLevel || e.Shard.I == 0
	x, inst := e.run(sc, prefix)
	if x.Diverged != "" {
		e.Rep.DistrustF("NONDETERMINISM scenario=%s prefix=%v: %s", sc.Name, prefix, x.Diverged)
		return
	}
	// a replayed prefix must reproduce the parent's steps exactly
	if n := 3 * (len(prefix) - 1); n > 0 && parentTrace != nil && (len(x.Trace) < n || len(parentTrace) < n || !sameInts(x.Trace[:n], parentTrace[:n])) {
		e.Rep.DistrustF("NONDETERMINISM scenario=%s prefix=%v: replay diverged from the parent execution", sc.Name, prefix)
		return
	}
	if counted {
		e.account(sc, x, inst, prefix)
	}
	e.checkRace(sc, choices(x), counted)
	// children: deviate at every point at or after the prefix
	pre := preBefore
	cs := choices(x)
	for i := len(prefix); i < len(x.Points); i++ {
		p := x.Points[i]
		cost := pre
		if p.RunningEnabled {
			cost++ // switching away from a runnable thread is a preemption
		}
		if sc.Bound < 0 || cost <= sc.Bound {
			for alt := 1; alt < p.Enabled; alt++ {
				child := append(append(make([]int, 0, i+1), cs[:i]...), alt)
				e.explore(sc, child, x.Trace, level+1, cost)
			}
		}
		// the default continuation took choice 0: no preemption added at i
	}
}

func (e *Explorer) account(sc *Scenario, x *vrt.Exec, inst *Instance, prefix []int) {
	st := &e.Stats
	st.Executions++
	st.Points += len(x.Points)
	if len(x.Points) > st.MaxPointsSeen {
		st.MaxPointsSeen = len(x.Points)
	}
	npre := 0
	for _, p := range x.Points {
		if p.RunningEnabled && p.Chosen != 0 {
			npre++
		}
	}
	if npre > 0 {
		st.WithPreemption++
	}
	if npre > st.MaxPreemptions {
		st.MaxPreemptions = npre
	}
	replay := func() map[string]any {
		return map[string]any{"engine": "sched", "binary": e.Binary, "part": e.Part, "scenario": sc.Name, "info": sc.Info,
			"schedule": choices(x), "threads": inst.Names, "steps": describe(x)}
	}
	if x.Deadlock {
		st.Deadlocks++
		e.Rep.Violate(e.Rep.Property+":deadlock:"+sc.Name, "no enabled thread while some thread is unfinished", replay())
		return
	}
	if x.Horizon {
		st.Horizons++
		e.Rep.DistrustF("HORIZON scenario=%s: execution exceeded %d scheduling points (livelock or harness too long)", sc.Name, sc.MaxPoints)
		return
	}
	for _, p := range x.Panics() {
		e.Rep.Violate(e.Rep.Property+":panic:"+sc.Name, fmt.Sprintf("a thread panicked: %v", p), replay())
	}
	fails := x.Fails
	if inst.Check != nil {
		fails = append(fails, inst.Check(x)...)
	}
	for _, f := range fails {
		e.Rep.Violate(f.Key, f.Detail, replay())
	}
	if inst.Outcome != nil {
		e.Rep.Outcome(sc.Name + ":" + inst.Outcome())
	}
	if len(e.Rep.Samples) < 3 && npre > 0 {
		e.Rep.Sample(3, map[string]any{"scenario": sc.Name, "schedule": choices(x), "steps": describe(x)})
	}
}

func describe(x *vrt.Exec) []string {
	out := make([]string, 0, len(x.Points))
	for _, p := range x.Points {
		s := fmt.Sprintf("%s:%s", x.Threads[p.Thread].Name, p.Kind)
		if p.Lock != 0 {
			s += fmt.Sprintf("#%d", p.Lock)
		}
		out = append(out, s)
	}
	return out
}

var raceFn = regexp.MustCompile(`(?m)^(?:Read|Write|Previous read|Previous write|Previous atomic \w+|Atomic \w+) at .*\n  (\S+)\(`)

// checkRace looks whether the race detector has written a new report since the
// last look; a report is attributed to the schedule that has just been executed.
func (e *Explorer) checkRace(sc *Scenario, schedule []int, counted bool) {
	if e.RaceLog == "" {
		return
	}
	fi, err := os.Stat(e.RaceLog)
	if err != nil || fi.Size() == e.raceSize {
		return
	}
	b, _ := os.ReadFile(e.RaceLog)
	txt := string(b[e.raceSize:])
	e.raceSize = fi.Size()
	for _, rpt := range strings.Split(txt, "WARNING: DATA RACE") {
		ms := raceFn.FindAllStringSubmatch(rpt, -1)
		if len(ms) < 2 {
			continue
		}
		fns := []string{shortFn(ms[0][1]), shortFn(ms[1][1])}
		sort.Strings(fns)
		if len(rpt) > 3000 {
			rpt = rpt[:3000]
		}
		e.Rep.Violate(fmt.Sprintf("%s:race:%s|%s", e.Rep.Property, fns[0], fns[1]),
			fmt.Sprintf("data race between %s and %s (scenario %s)", fns[0], fns[1], sc.Name),
			map[string]any{"engine": "sched", "binary": e.Binary, "part": e.Part, "scenario": sc.Name, "info": sc.Info,
				"schedule": schedule, "expect": "race", "race_report": rpt})
	}
}

func shortFn(s string) string {
	s = strings.TrimPrefix(s, "github.com/vulcand/oxy/v2/")
	return s
}

// Replay runs one schedule of sc; used by `vsched replay`.
func (e *Explorer) Replay(sc *Scenario, schedule []int) (bool, string) {
	x, inst := e.run(sc, schedule)
	if x.Diverged != "" {
		return false, "schedule no longer applies to this tree: " + x.Diverged
	}
	e.account(sc, x, inst, schedule)
	e.checkRace(sc, schedule, true)
	if len(e.Rep.Violations) > 0 {
		v := e.Rep.Violations[0]
		return true, v.Key + " :: " + v.Detail + "\n" + strings.Join(describe(x), " ")
	}
	return false, "schedule executed, oracle satisfied, no race reported: " + strings.Join(describe(x), " ")
}

// Package c10: rebalancer weight discipline. Explicit-state search to fixpoint on
// the real Rebalancer(RoundRobin) with scripted meters (RebalancerMeter option)
// and a frozen clock.
package c10

import (
	"fmt"
	"math"
	"math/big"
	"net/http"
	"net/http/httptest"
	"net/url"
	"os"
	"reflect"
	"sort"
	"strings"
	"time"

	"github.com/vulcand/oxy/v2/internal/holsterv4/clock"
	"github.com/vulcand/oxy/v2/roundrobin"
	"github.com/vulcand/oxy/v2/zverif/lib"
)

type scriptMeter struct {
	rating float64
	ready  bool
}

func (m *scriptMeter) Rating() float64           { return m.rating }
func (m *scriptMeter) Record(int, time.Duration) {}
func (m *scriptMeter) IsReady() bool             { return m.ready }

const nServers = 3

type sys struct {
	backoff time.Duration
	rr      *roundrobin.RoundRobin
	rb      *roundrobin.Rebalancer
	meters  [nServers]*scriptMeter
	current int // server being upserted (meter creation is attributed to it)
	// reference
	configured [nServers]int // 0 = not a member
	lastAdjust time.Time
	adjusted   bool // an adjustment happened since the last membership/config change
	served     int
	slow       bool // the next request's backend call takes 1.5 back-off intervals (the clock moves INSIDE the request)
}

func su(i int) *url.URL {
	u, _ := url.Parse(fmt.Sprintf("http://s%d:80", i+1))
	return u
}

var base = clock.Date(2012, 3, 4, 5, 6, 7, 0, clock.UTC)

// stickyMode: the rebalancer is built with session affinity and EVERY request carries a valid affinity cookie naming
// a current member (traffic of returning clients only). Affinity decides where a request goes, not whether the
// rebalancer reacts to what its meters say: every obligation of the property stays as it is.
var stickyMode bool

func newSys(backoff time.Duration, initial []int) *sys {
	clock.Freeze(base)
	s := &sys{backoff: backoff, current: -1}
	rr, err := roundrobin.New(http.HandlerFunc(func(w http.ResponseWriter, r *http.Request) {
		s.served++
		if s.slow {
			clock.Advance(s.backoff + s.backoff/2) // a backend call that lasts longer than the back-off
		}
		w.WriteHeader(200)
	}))
	if err != nil {
		panic(err)
	}
	s.rr = rr
	ropts := []roundrobin.RebalancerOption{roundrobin.RebalancerBackoff(backoff), roundrobin.RebalancerMeter(func() (roundrobin.Meter, error) {
		m := &scriptMeter{ready: true}
		if s.current >= 0 {
			s.meters[s.current] = m
		}
		return m, nil
	})}
	if stickyMode {
		ropts = append(ropts, roundrobin.RebalancerStickySession(roundrobin.NewStickySession("sid")))
	}
	rb, err := roundrobin.NewRebalancer(rr, ropts...)
	if err != nil {
		panic(err)
	}
	s.rb = rb
	for i, w := range initial {
		if w > 0 {
			s.upsert(i, w)
		}
	}
	return s
}

// upsert: w < 0 means "no Weight option" (a new server gets the default weight 1, an
// existing one keeps its configured weight).
func (s *sys) upsert(i, w int) error {
	s.current = i
	var err error
	u := su(i)
	if w < 0 {
		err = s.rb.UpsertServer(u)
	} else {
		err = s.rb.UpsertServer(u, roundrobin.Weight(w))
	}
	lib.ReuseURL(u) // the caller's value, free to be reused once the call has returned
	s.current = -1
	if err == nil {
		if w >= 0 {
			s.configured[i] = w
		} else if s.configured[i] == 0 {
			s.configured[i] = 1
		}
		s.adjusted = false
	}
	return err
}

func (s *sys) remove(i int) error {
	u := su(i)
	err := s.rb.RemoveServer(u)
	lib.ReuseURL(u)
	if err == nil {
		s.configured[i] = 0
		s.meters[i] = nil
		s.adjusted = false
	}
	return err
}

// weights reads the effective weights through the public API.
func (s *sys) weights() [nServers]int {
	var w [nServers]int
	for i := 0; i < nServers; i++ {
		if v, ok := s.rr.ServerWeight(su(i)); ok {
			w[i] = v
		} else {
			w[i] = -1
		}
	}
	return w
}

func (s *sys) members() []int {
	var m []int
	for i, c := range s.configured {
		if c > 0 {
			m = append(m, i)
		}
	}
	return m
}

// outliers: reference restatement of the split "value > (median + median absolute
// deviation) x 1.5, with a zero sentinel for even counts".
func outliers(vals []float64) []bool {
	v := append([]float64{}, vals...)
	if len(v)%2 == 0 {
		v = append(v, 0)
	}
	med := func(x []float64) float64 {
		y := append([]float64{}, x...)
		sort.Float64s(y)
		if len(y)%2 == 1 {
			return y[len(y)/2]
		}
		return (y[len(y)/2-1] + y[len(y)/2]) / 2
	}
	m := med(v)
	dev := make([]float64, len(v))
	for i, x := range v {
		d := x - m
		if d < 0 {
			d = -d
		}
		dev[i] = d
	}
	thr := (m + med(dev)) * 1.5
	out := make([]bool, len(vals))
	for i, x := range vals {
		out[i] = x > thr
	}
	return out
}

func share(w [nServers]int, i int) *big.Rat {
	sum := 0
	for _, x := range w {
		if x > 0 {
			sum += x
		}
	}
	if sum == 0 {
		return new(big.Rat)
	}
	return big.NewRat(int64(w[i]), int64(sum))
}

type verdict struct{ key, detail string }

// request sets the scripted ratings (per server index) and sends one request.
func (s *sys) request(ratings [nServers]float64, notReady int) (string, []verdict) {
	var vs []verdict
	mem := s.members()
	var vals []float64
	for _, i := range mem {
		s.meters[i].rating = ratings[i]
		s.meters[i].ready = i != notReady
		vals = append(vals, ratings[i])
	}
	before := s.weights()
	inv := s.served
	rec := httptest.NewRecorder()
	req := httptest.NewRequest("GET", "http://client/", nil)
	if stickyMode && len(mem) > 0 {
		req.AddCookie(&http.Cookie{Name: "sid", Value: su(mem[len(mem)-1]).String()})
	}
	s.rb.ServeHTTP(rec, req)
	after := s.weights()
	now := clock.Now()
	obs := fmt.Sprintf("%v->%v", before, after)
	if len(mem) > 0 && s.served == inv {
		vs = append(vs, verdict{"C10:pool-not-servable", fmt.Sprintf("members %v with weights %v: request not forwarded (status %d)", mem, before, rec.Code)})
	}
	if before != after {
		obs += " ADJUSTED"
		if s.adjusted && now.Sub(s.lastAdjust) < s.backoff {
			vs = append(vs, verdict{"C10:adjusted-within-backoff", fmt.Sprintf("weights changed %v -> %v only %v after the previous adjustment (back-off %v)", before, after, now.Sub(s.lastAdjust), s.backoff)})
		}
		s.adjusted, s.lastAdjust = true, now
		allReady := notReady < 0 || s.configured[notReady] == 0
		if !allReady {
			vs = append(vs, verdict{"C10:adjusted-while-meter-not-ready", fmt.Sprintf("weights changed %v -> %v although the meter of s%d is not ready", before, after, notReady+1)})
		}
		out := outliers(vals)
		for k, i := range mem {
			if out[k] && share(after, i).Cmp(share(before, i)) > 0 {
				vs = append(vs, verdict{"C10:outlier-share-increased", fmt.Sprintf("ratings %v: s%d is an outlier and its share grew: weights %v -> %v", vals, i+1, before, after)})
			}
		}
	}
	vs = append(vs, s.invariant()...)
	return obs, vs
}

// invariant: bounds on every effective weight.
func (s *sys) invariant() []verdict {
	var vs []verdict
	w := s.weights()
	for i, c := range s.configured {
		switch {
		case c == 0 && w[i] != -1:
			vs = append(vs, verdict{"C10:non-member-has-weight", fmt.Sprintf("s%d is not a member but has weight %d", i+1, w[i])})
		case c > 0:
			max := 4096
			if c > max {
				max = c
			}
			if w[i] < 1 || w[i] > max {
				vs = append(vs, verdict{"C10:weight-out-of-bounds", fmt.Sprintf("s%d configured %d has effective weight %d (want 1..%d); all %v", i+1, c, w[i], max, w)})
			}
		}
	}
	return vs
}

type opDesc struct {
	kind     int // 0 req, 1 advance, 2 upsert, 3 remove, 4 refused upsert
	ratings  [nServers]float64
	notReady int
	d        time.Duration
	srv, w   int
	slow     bool
}

var ratingVals = []float64{0, 0.4, 1}

func alphabet(backoff time.Duration, tier string) ([]string, []opDesc) {
	var names []string
	var descs []opDesc
	for a := range ratingVals {
		for b := range ratingVals {
			for c := range ratingVals {
				r := [nServers]float64{ratingVals[a], ratingVals[b], ratingVals[c]}
				if tier != "thorough" {
					// quick: every split pattern (none/one/two outliers at every position, a mid rating
					// on either side of the threshold) but not the full cube
					n04 := 0
					for _, x := range r {
						if x == 0.4 {
							n04++
						}
					}
					if n04 > 1 && !(n04 == 3) || n04 == 1 && !(r == [nServers]float64{1, 0.4, 0} || r == [nServers]float64{0.4, 0, 1}) {
						continue
					}
				}
				names = append(names, fmt.Sprintf("Req%v", r))
				descs = append(descs, opDesc{kind: 0, ratings: r, notReady: -1})
			}
		}
	}
	// a request that takes longer than the back-off interval (time passes inside the rebalancer's ServeHTTP)
	names = append(names, "SlowReq[1 0 0]")
	descs = append(descs, opDesc{kind: 0, ratings: [nServers]float64{1, 0, 0}, notReady: -1, slow: true})
	names = append(names, "Req[1 0 0]/s2-not-ready", "Req[0 0 1]/s1-not-ready")
	descs = append(descs, opDesc{kind: 0, ratings: [nServers]float64{1, 0, 0}, notReady: 1}, opDesc{kind: 0, ratings: [nServers]float64{0, 0, 1}, notReady: 0})
	for _, d := range []time.Duration{backoff / 2, backoff + time.Millisecond} {
		names = append(names, fmt.Sprintf("Advance(%v)", d))
		descs = append(descs, opDesc{kind: 1, d: d})
	}
	ws := []int{1, 3}
	if tier == "thorough" {
		ws = []int{1, 2, 3, 5, 4096, 5000}
	}
	for i := 0; i < nServers; i++ {
		for _, w := range ws {
			names = append(names, fmt.Sprintf("Upsert(s%d,%d)", i+1, w))
			descs = append(descs, opDesc{kind: 2, srv: i, w: w})
		}
		names = append(names, fmt.Sprintf("Upsert(s%d)", i+1)) // repeated add without a weight
		descs = append(descs, opDesc{kind: 2, srv: i, w: -1})
	}
	for i := 0; i < nServers; i++ {
		names = append(names, fmt.Sprintf("Remove(s%d)", i+1))
		descs = append(descs, opDesc{kind: 3, srv: i})
	}
	// an administration call that is REFUSED (invalid weight): neither membership nor any configured weight changes,
	// so nothing else may - the effective weights stay where the last adjustment put them
	names = append(names, "UpsertRefused(s1,w=-1)")
	descs = append(descs, opDesc{kind: 4, srv: 0})
	return names, descs
}

func model(backoff time.Duration, tier string) *lib.Model[*sys] {
	names, descs := alphabet(backoff, tier)
	m := &lib.Model[*sys]{Name: fmt.Sprintf("rebalancer/backoff=%v", backoff), Ops: names, Deadline: lib.Deadline}
	if stickyMode {
		m.Name += "/all-requests-carry-an-affinity-cookie"
	}
	m.New = func() *sys { return newSys(backoff, nil) }
	m.Apply = func(s *sys, op int) string {
		d := descs[op]
		var obs string
		var vs []verdict
		switch d.kind {
		case 0:
			s.slow = d.slow
			obs, vs = s.request(d.ratings, d.notReady)
			s.slow = false
		case 1:
			clock.Advance(d.d)
		case 2:
			err := s.upsert(d.srv, d.w)
			obs = fmt.Sprint(err)
			vs = s.afterMembershipChange("Upsert")
		case 3:
			err := s.remove(d.srv)
			obs = fmt.Sprint(err)
			if err == nil {
				vs = s.afterMembershipChange("Remove")
			}
		case 4:
			before := s.weights()
			u := su(d.srv)
			err := s.rb.UpsertServer(u, roundrobin.Weight(-1))
			lib.ReuseURL(u)
			after := s.weights()
			obs = fmt.Sprintf("refused=%v", err != nil)
			if err == nil {
				vs = append(vs, verdict{"C10:invalid-weight-accepted", "UpsertServer(s, Weight(-1)) reported success"})
			} else if before != after {
				vs = append(vs, verdict{"C10:refused-call-changed-effective-weights", fmt.Sprintf("UpsertServer(s%d, Weight(-1)) was refused (%v), yet the effective weights went from %v to %v (configured %v): neither membership nor a configured weight has changed", d.srv+1, err, before, after, s.configured)})
			}
		}
		for _, v := range vs {
			obs += " !!" + v.key + "!!" + v.detail
		}
		return obs
	}
	m.Enabled = func(s *sys, op int) bool {
		d := descs[op]
		switch d.kind {
		case 0:
			// ratings of absent servers are irrelevant: only the canonical vector (0 there) is enabled
			for i, c := range s.configured {
				if c == 0 && d.ratings[i] != 0 {
					return false
				}
			}
			if d.notReady >= 0 && s.configured[d.notReady] == 0 {
				return false
			}
			return len(s.members()) > 0
		case 1:
			// once the timer has expired further waiting changes nothing
			t := lib.Field(s.rb, "timer")
			if t.IsValid() {
				if tm, ok := t.Interface().(time.Time); ok && tm.Before(clock.Now()) && clock.Now().Sub(tm) > s.backoff {
					return false
				}
			}
			return true
		case 3:
			return s.configured[d.srv] > 0
		}
		return true
	}
	m.Key = func(s *sys) string {
		now := clock.Now().UTC()
		dm := lib.Dumper{Now: now, Relative: true, Skip: func(typ, field string) bool {
			// projected out: the balancer's rotation position, the scripted inputs of the last
			// request and scratch fields that are rewritten before every use
			return typ == "RoundRobin" && (field == "index" || field == "currentWeight") ||
				typ == "scriptMeter" || typ == "Rebalancer" && (field == "ratings" || field == "timer") || typ == "rbServer" && field == "good"
		}}
		timer := "?"
		if t := lib.Field(s.rb, "timer"); t.IsValid() {
			if tm, ok := t.Interface().(time.Time); ok {
				if tm.Before(now) {
					timer = "expired"
				} else {
					timer = fmt.Sprint(tm.Sub(now))
				}
			}
		}
		// ratings[i] for i < number of servers is rewritten before every use and projected out; the
		// slice's length and anything beyond the live servers is NOT (stale entries would be read)
		tail := "?"
		if r := lib.Field(s.rb, "ratings"); r.IsValid() && r.Kind() == reflect.Slice {
			n := len(s.members())
			tail = fmt.Sprintf("len=%d", r.Len())
			for i := n; i < r.Len(); i++ {
				tail += fmt.Sprintf(",%v", r.Index(i).Float())
			}
		}
		la := "none"
		if s.adjusted {
			if d := now.Sub(s.lastAdjust); d < s.backoff {
				la = fmt.Sprint(d)
			} else {
				la = "old"
			}
		}
		return dm.Dump(s.rb) + "|" + timer + "|" + tail + "|" + la + fmt.Sprint(s.configured)
	}
	m.OnTransition = func(s *sys, hist []int, obs []string, rep *lib.Report) {
		o := obs[len(obs)-1]
		if strings.Contains(o, "ADJUSTED") {
			rep.Count("adjustments")
		}
		if descs[hist[len(hist)-1]].kind >= 2 {
			rep.Count("membership_changes")
		}
		for _, part := range strings.Split(o, " !!")[1:] {
			p := strings.SplitN(part, "!!", 2)
			rep.Violate(p[0], p[1], map[string]any{"engine": "xstate", "part": "c10", "backoff_ns": int64(backoff), "tier": tier, "sticky": stickyMode, "ops": m.OpNames(hist), "observations": obs})
		}
	}
	m.Check = func(s *sys, hist []int, obs []string, rep *lib.Report) {
		continuations(m, s, backoff, tier, hist, rep)
	}
	return m
}

func (s *sys) afterMembershipChange(what string) []verdict {
	var vs []verdict
	w := s.weights()
	for i, c := range s.configured {
		if c > 0 && w[i] != c {
			vs = append(vs, verdict{"C10:configured-weights-not-restored", fmt.Sprintf("after %s: s%d configured %d but effective %d (all %v, configured %v)", what, i+1, c, w[i], w, s.configured)})
			break
		}
	}
	return append(vs, s.invariant()...)
}

// continuations: bounded-liveness obligations, started from every reachable state.
func continuations(m *lib.Model[*sys], s0 *sys, backoff time.Duration, tier string, hist []int, rep *lib.Report) {
	mem := s0.members()
	if len(mem) < 2 {
		return
	}
	what := func(c string) map[string]any {
		return map[string]any{"engine": "xstate", "part": "c10", "backoff_ns": int64(backoff), "tier": tier, "sticky": stickyMode, "ops": m.OpNames(hist), "continuation": c}
	}
	step := backoff + time.Millisecond
	// (a) a persistent outlier loses share within two back-off intervals
	for _, bad := range mem {
		s, _ := m.Build(hist)
		var r [nServers]float64
		r[bad] = 1
		w0 := s.weights()
		canGrow := false
		for _, j := range mem {
			if j != bad && w0[j]*4 <= 4096 {
				canGrow = true
			}
		}
		for k := 0; k < 2; k++ {
			clock.Advance(step)
			s.request(r, -1)
		}
		w2 := s.weights()
		rep.Count("persistent_outlier_continuations")
		if canGrow && share(w2, bad).Cmp(share(w0, bad)) >= 0 {
			rep.Violate("C10:persistent-outlier-keeps-share", fmt.Sprintf("s%d rated 1.0 (others 0) for two back-off rounds, all meters ready: weights %v -> %v, its share did not decrease", bad+1, w0, w2),
				what(fmt.Sprintf("2x(Advance(%v); Req with s%d rated 1)", step, bad+1)))
		}
		if !canGrow {
			rep.Count("persistent_outlier_others_at_cap")
		}
	}
	// (c) a meter that reports a non-finite rating (0/0 of a meter that has seen nothing) next to a real outlier:
	// whatever the rebalancer makes of the NaN server, the adjustment must not increase the outlier's share
	if len(mem) >= 3 {
		pairs := [][2]int{{mem[0], mem[1]}, {mem[0], mem[len(mem)-1]}, {mem[len(mem)-1], mem[0]}}
		for _, pr := range pairs {
			s, _ := m.Build(hist)
			var r [nServers]float64
			r[pr[0]], r[pr[1]] = math.NaN(), 1
			clock.Advance(step)
			_, vs := s.request(r, -1)
			rep.Count("non_finite_rating_continuations")
			for _, v := range vs {
				if v.key == "C10:outlier-share-increased" {
					rep.Violate("C10:outlier-share-increased:non-finite-rating-present", v.detail, what(fmt.Sprintf("Advance(%v); Req with s%d rated NaN, s%d rated 1, others 0", step, pr[0]+1, pr[1]+1)))
				}
			}
		}
	}
	// (d) re-configuring a server to exactly the weight the rebalancer has currently given it is still a change of
	// its configured weight: all configured weights are restored at once, and later convergence aims at the new one
	{
		w0 := s0.weights()
		for _, i := range mem {
			if w0[i] == s0.configured[i] || w0[i] <= 0 {
				continue
			}
			s, _ := m.Build(hist)
			if err := s.upsert(i, w0[i]); err != nil {
				break
			}
			rep.Count("reconfigure_to_effective_weight_continuations")
			for _, v := range s.afterMembershipChange(fmt.Sprintf("Upsert(s%d,%d) (its effective weight)", i+1, w0[i])) {
				rep.Violate(v.key+":reconfigured-to-effective-weight", v.detail, what(fmt.Sprintf("Upsert(s%d,%d)", i+1, w0[i])))
			}
			break // one member per state is enough: every adjusted state is visited
		}
	}
	// (b) once ratings stop differing the weights return to the configured proportions within six adjustments
	s, _ := m.Build(hist)
	var eq [nServers]float64
	for k := 0; k < 6; k++ {
		clock.Advance(step)
		s.request(eq, -1)
	}
	w := s.weights()
	rep.Count("convergence_continuations")
	for _, i := range mem {
		for _, j := range mem {
			if w[i]*s.configured[j] != w[j]*s.configured[i] {
				rep.Violate("C10:no-convergence-in-six-adjustments", fmt.Sprintf("equal ratings for six back-off rounds: weights %v are not proportional to the configured %v", w, s.configured), what(fmt.Sprintf("6x(Advance(%v); Req with equal ratings)", step)))
				return
			}
		}
	}
}

func Run(tier string, sh lib.Shard, rep *lib.Report) {
	rep.Rule = "BFS to FIXPOINT (relative-time keys; balancer rotation position and scripted inputs projected out) over Req(ratings in {0,0.4,1}^3, readiness)/Advance/Upsert/Remove on the real Rebalancer(RoundRobin) with scripted meters; invariants on every transition, two bounded-liveness continuations a non-finite-rating probe (NaN next to a real outlier) and a reconfigure-to-the-effective-weight probe from every reachable state; non-trivial = adjustments observed"
	rep.Assume("A2", "projection of the round-robin iterator: membership and weights do not read it")
	rep.Require("adjustments", "membership_changes", "persistent_outlier_continuations", "convergence_continuations", "persistent_outlier_others_at_cap", "non_finite_rating_continuations", "reconfigure_to_effective_weight_continuations")
	backoffs := []time.Duration{time.Second, 10 * time.Second}
	for _, b := range backoffs {
		m := model(b, tier)
		m.MaxStates = 400000
		r := m.RunDistributed(rep, sh, os.Getenv("VERIF_GANG_DIR"))
		rep.Bounds[m.Name] = r.Describe()
		if !r.Complete {
			rep.Exhaustive = false
		}
		rep.Sample(2, map[string]any{"model": m.Name, "result": r.Describe()})
	}
	// the same model where every request carries an affinity cookie: histories up to a depth bound
	stickyMode = true
	ms := model(time.Second, tier)
	ms.MaxDepth = 3
	if tier == "thorough" {
		ms.MaxDepth = 5
	}
	rs := ms.RunDistributed(rep, sh, os.Getenv("VERIF_GANG_DIR"))
	stickyMode = false
	rep.Bounds[ms.Name] = rs.Describe()
	rep.Count("searches_with_affinity_cookies_on_every_request")
	rep.Require("searches_with_affinity_cookies_on_every_request")
	rep.Nontrivial = rep.Counters["adjustments"]
}

func Replay(rp map[string]any) (bool, string) {
	tier, _ := rp["tier"].(string)
	stickyMode = rp["sticky"] == true
	defer func() { stickyMode = false }()
	m := model(time.Duration(int64(rp["backoff_ns"].(float64))), tier)
	hist, err := m.ParseOps(rp["ops"])
	if err != nil {
		return false, err.Error()
	}
	return m.ReplayHistory(hist, lib.NewReport("C10", "replay"))
}

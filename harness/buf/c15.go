package buf

import (
	"bytes"
	"fmt"
	"io"
	"net/http"
	"os"
	"path/filepath"
	"strings"

	"github.com/vulcand/oxy/v2/buffer"
	"github.com/vulcand/oxy/v2/zverif/lib"
)

type limits struct{ mem, max int } // max 0 = unlimited

type c15case struct {
	side           string // "request" or "response"
	lim            limits
	size           int
	chunk          int // request framing (0 = declared) / response write pattern index
	method         string
	status         int
	hdr            int // 0 none, 1 Content-Length: 0, 2 Grpc-Status: 1
	retries        int
	clientBreaksAt int  // >=0: the client connection breaks after that many body bytes were delivered
	upgrade        bool // the request asks for a protocol upgrade (Connection: Upgrade) which the handler declines by answering normally
	abort          bool // the handler aborts (panic http.ErrAbortHandler) after writing, as a forwarder does when its backend dies mid-body
}

var writePatterns = []string{"one-write", "two-writes-straddling-mem", "two-writes-straddling-max", "bytewise"}
var respHdrs = []string{"none", "content-length-0", "grpc-status-1"}

func (c c15case) String() string {
	if c.side == "request" {
		return fmt.Sprintf("request mem=%d max=%d size=%d chunk=%d method=%s retries=%d", c.lim.mem, c.lim.max, c.size, c.chunk, c.method, c.retries)
	}
	ab := ""
	if c.abort {
		ab = " handler-aborts-after-writing"
	}
	if c.side == "response" && c.clientBreaksAt >= 0 {
		ab += fmt.Sprintf(" client-connection-breaks-after-%d-bytes", c.clientBreaksAt)
	}
	if c.upgrade {
		ab += " request-asks-for-upgrade"
	}
	return fmt.Sprintf("response mem=%d max=%d size=%d writes=%s method=%s status=%d header=%s retries=%d%s", c.lim.mem, c.lim.max, c.size, writePatterns[c.chunk], c.method, c.status, respHdrs[c.hdr], c.retries, ab)
}

var tmpDir string

func ensureTmp() {
	if tmpDir != "" {
		return
	}
	d, err := os.MkdirTemp("", "c15-tmp-")
	if err != nil {
		panic(err)
	}
	tmpDir = d
	os.Setenv("TMPDIR", d) // os.TempDir() reads it on every call: spills of this worker land here
}

func leftovers() []string {
	ents, _ := os.ReadDir(tmpDir)
	var out []string
	for _, e := range ents {
		out = append(out, e.Name())
	}
	return out
}

func cleanTmp() {
	for _, n := range leftovers() {
		os.Remove(filepath.Join(tmpDir, n))
	}
}

const marker = "MARK"

func respBody(n int) []byte {
	b := bytes.Repeat([]byte(marker), n/len(marker)+1)
	return b[:n]
}

func writes(c c15case) [][]byte {
	b := respBody(c.size)
	cut := func(at int) [][]byte {
		if at <= 0 || at >= len(b) {
			return [][]byte{b}
		}
		return [][]byte{b[:at], b[at:]}
	}
	switch c.chunk {
	case 1:
		return cut(c.lim.mem - 1)
	case 2:
		if c.lim.max > 0 {
			return cut(c.lim.max - 1)
		}
		return cut(len(b) / 2)
	case 3:
		var out [][]byte
		for i := range b {
			out = append(out, b[i:i+1])
		}
		return out
	}
	return [][]byte{b}
}

// long-lived Buffer instances (one per side x limits x retries), serving their cases in sequence; see c06.go
type c15instance struct {
	b   *buffer.Buffer
	cur http.Handler
}

var c15instances = map[string]*c15instance{}

var c15pos struct {
	tier  string
	shard lib.Shard
	index int
}

func c15instanceFor(c c15case, opts []buffer.Option) (*c15instance, error) {
	key := fmt.Sprintf("%s/%d/%d/%d", c.side, c.lim.mem, c.lim.max, c.retries)
	if in, ok := c15instances[key]; ok {
		return in, nil
	}
	in := &c15instance{}
	// options are not supplied in one fixed order, and the OTHER direction's maximum is spelled out as "no limit" (0)
	// on two instances out of three - after this direction's options, or before them
	other := buffer.MaxRequestBodyBytes(0)
	if c.side == "request" {
		other = buffer.MaxResponseBodyBytes(0)
	}
	switch (c.lim.mem + c.lim.max + c.retries) % 3 {
	case 0:
		opts = append(append([]buffer.Option{}, opts...), other)
	case 1:
		opts = append([]buffer.Option{other}, opts...)
	}
	b, err := buffer.New(http.HandlerFunc(func(w http.ResponseWriter, r *http.Request) { in.cur.ServeHTTP(w, r) }), opts...)
	if err != nil {
		return nil, err
	}
	in.b = b
	c15instances[key] = in
	return in, nil
}

func runC15(c c15case, rep *lib.Report) {
	ensureTmp()
	cleanTmp()
	invoked := 0
	var opts []buffer.Option
	what := func() map[string]any {
		return map[string]any{"engine": "enum", "part": "c15", "case": c.String(),
			"tier": c15pos.tier, "shard": fmt.Sprintf("%d/%d", c15pos.shard.I, c15pos.shard.N), "index": c15pos.index}
	}
	if c.retries > 0 {
		opts = append(opts, buffer.Retry(fmt.Sprintf("Attempts() <= %d", c.retries)))
	}
	var h http.Handler
	var req *http.Request
	if c.side == "request" {
		opts = append(opts, buffer.MemRequestBodyBytes(int64(c.lim.mem)))
		if c.lim.max > 0 {
			opts = append(opts, buffer.MaxRequestBodyBytes(int64(c.lim.max)))
		}
		h = http.HandlerFunc(func(w http.ResponseWriter, r *http.Request) {
			invoked++
			io.Copy(io.Discard, r.Body)
			w.WriteHeader(200)
			w.Write([]byte("ok"))
		})
		req, _ = lib.ParseRequest(lib.RawRequest(c.method, "/", nil, bodyOf(c.size), c.chunk))
		if c.chunk < 0 {
			// the framing of a streamed HTTP/2 upload: length unknown (-1), no transfer-encoding, body read until EOF
			req.ContentLength, req.TransferEncoding = -1, nil
			req.Header.Del("Content-Length")
			req.Proto, req.ProtoMajor, req.ProtoMinor = "HTTP/2.0", 2, 0
			req.Body = io.NopCloser(bytes.NewReader(bodyOf(c.size)))
			rep.Count("requests_of_unknown_length_without_chunking")
		}
		if c.chunk == -2 && c.size > 1 {
			// the declared length UNDERSTATES what the body delivers (a decompressing or body-rewriting handler in
			// front that kept the original Content-Length): the limit is on the bytes actually read
			req.ContentLength = 1
			req.Header.Set("Content-Length", "1")
			req.Body = io.NopCloser(bytes.NewReader(bodyOf(c.size)))
			rep.Count("requests_whose_declared_length_understates_the_body")
		}
	} else {
		opts = append(opts, buffer.MemResponseBodyBytes(int64(c.lim.mem)))
		if c.lim.max > 0 {
			opts = append(opts, buffer.MaxResponseBodyBytes(int64(c.lim.max)))
		}
		h = http.HandlerFunc(func(w http.ResponseWriter, r *http.Request) {
			invoked++
			switch c.hdr {
			case 1:
				w.Header().Set("Content-Length", "0")
			case 2:
				w.Header().Set("Grpc-Status", "1")
			}
			w.WriteHeader(c.status)
			for _, p := range writes(c) {
				w.Write(p)
			}
			if c.abort {
				panic(http.ErrAbortHandler)
			}
		})
		var hs [][2]string
		if c.upgrade {
			hs = [][2]string{{"Connection", "keep-alive, Upgrade"}, {"Upgrade", "websocket"}}
		}
		req, _ = lib.ParseRequest(lib.RawRequest(c.method, "/", hs, nil, 0))
	}
	in, err := c15instanceFor(c, opts)
	if err != nil {
		rep.DistrustF("buffer.New: %v", err)
		return
	}
	in.cur = h
	b := in.b
	var rec *lib.Recorder
	if c.side == "response" && c.clientBreaksAt >= 0 {
		// delivery to the client fails part-way: only the temp-file obligation applies
		bw := &lib.BrokenWriter{H: http.Header{}, FailAfter: c.clientBreaksAt}
		func() {
			defer func() { recover() }()
			b.ServeHTTP(bw, req)
		}()
		rep.Evaluations++
		rep.Count("broken_client_connections")
		if left := leftovers(); len(left) > 0 {
			rep.Count("exchanges_leaving_files")
			rep.Violate("C15:temp-file-left:response:client-write-failed", fmt.Sprintf("%v: after the exchange completed %d temporary file(s) remain: %v", c, len(left), left), what())
		}
		cleanTmp()
		return
	}
	rec = lib.Serve(b, req)
	rep.Evaluations++
	left := leftovers()
	framing := "declared"
	if c.chunk > 0 {
		framing = "chunked"
	} else if c.chunk == -2 {
		framing = "understated-length"
	} else if c.chunk < 0 {
		framing = "unknown-length"
	}
	if c.side == "request" {
		over := c.lim.max > 0 && c.size > c.lim.max
		if c.size > c.lim.mem && !over {
			rep.Count("request_spills")
		}
		switch {
		case over && (rec.Code != http.StatusRequestEntityTooLarge || invoked != 0):
			rep.Violate("C15:oversized-request-not-refused:"+framing, fmt.Sprintf("%v: status %d, handler invoked %d times (want 413 and no invocation)", c, rec.Code, invoked), what())
		case !over && (rec.Code != 200 || invoked != c.retries+1):
			rep.Violate("C15:request-within-limit-refused:"+framing, fmt.Sprintf("%v: status %d, handler invoked %d times (want 200 and %d)", c, rec.Code, invoked, c.retries+1), what())
		}
		if over {
			rep.Count("oversized_requests")
		}
	} else {
		over := c.lim.max > 0 && c.size > c.lim.max
		kind := fmt.Sprintf("status=%d,method=%s,header=%s", c.status, c.method, respHdrs[c.hdr])
		if c.size > c.lim.mem && (c.lim.max == 0 || c.lim.mem < c.lim.max) {
			rep.Count("response_spills")
		}
		if c.abort {
			// the exchange ended with an error inside the handler: only the temp-file obligation applies
			rep.Count("aborted_exchanges")
			if rec.Panic == nil && rec.Code < 400 && rec.Body.Len() > 0 {
				rep.Violate("C15:aborted-response-delivered", fmt.Sprintf("%v: client got status %d and %d bytes", c, rec.Code, rec.Body.Len()), what())
			}
		} else if over {
			rep.Count("oversized_responses")
			if rec.Panic == nil && (rec.Code < 400 || strings.Contains(rec.Body.String(), marker[:3])) {
				rep.Violate("C15:oversized-response-delivered", fmt.Sprintf("%v: client got status %d and %d body bytes containing handler output", c, rec.Code, rec.Body.Len()), what())
			}
		} else if c.status < 100 || c.status > 999 {
			// a status net/http refuses (its WriteHeader panics): however the buffer copes, the exchange ends with an
			// error and only the temp-file obligation applies
			rep.Count("responses_with_a_status_the_client_writer_refuses")
		} else if rec.Panic == nil {
			noBody := c.method == "HEAD" || c.status == 204 || c.status == 304 || c.hdr != 0
			if c.size == 0 && !noBody {
				// an empty body on a status that expects one is C07's subject
			} else if rec.Code != c.status {
				rep.Violate("C15:response-within-limit-altered:"+kind, fmt.Sprintf("%v: client got status %d", c, rec.Code), what())
			} else if !noBody && rec.Code == c.status && !bytes.Equal(rec.Body.Bytes(), respBody(c.size)) {
				rep.Violate("C15:response-within-limit-altered:"+kind, fmt.Sprintf("%v: client got %d body bytes, handler wrote %d", c, rec.Body.Len(), c.size), what())
			}
		}
	}
	if len(left) > 0 {
		rep.Count("exchanges_leaving_files")
		kind := c.side
		if c.side == "response" {
			switch {
			case c.lim.max > 0 && c.size > c.lim.max:
				kind += ":over-limit"
			case c.abort:
				kind += ":handler-aborted"
			case c.status < 100 || c.status > 999:
				kind += ":status-refused-by-the-client-writer"
			case c.method == "HEAD" || c.status == 204 || c.status == 304 || c.hdr != 0:
				kind += ":bodiless-kind"
			default:
				kind += ":delivered"
			}
			if c.retries > 0 {
				kind += ":retried"
			}
		}
		rep.Violate("C15:temp-file-left:"+kind, fmt.Sprintf("%v: after the exchange completed %d temporary file(s) remain: %v", c, len(left), left), what())
	}
	cleanTmp()
}

func c15cases(tier string) []c15case {
	lims := []limits{{8, 16}, {16, 16}, {32, 16}, {8, 0}}
	var out []c15case
	sizesFor := func(l limits) []int {
		max := l.max
		if max == 0 {
			max = 24
		}
		s := []int{0, l.mem - 1, l.mem, l.mem + 1, max - 1, max, max + 1, 2 * max}
		seen := map[int]bool{}
		var o []int
		for _, x := range s {
			if x >= 0 && !seen[x] {
				seen[x] = true
				o = append(o, x)
			}
		}
		return o
	}
	for _, l := range lims {
		for _, size := range sizesFor(l) {
			for _, chunk := range []int{0, 1, 5, -1, -2} {
				for _, method := range []string{"POST", "PUT"} {
					for _, retries := range []int{0, 1, 2} {
						out = append(out, c15case{side: "request", lim: l, size: size, chunk: chunk, method: method, retries: retries, clientBreaksAt: -1})
					}
				}
			}
			for _, wp := range []int{0, 3} {
				for _, retries := range []int{0, 1} {
					out = append(out, c15case{side: "response", lim: l, size: size, chunk: wp, method: "GET", status: 200, retries: retries, abort: true, clientBreaksAt: -1})
				}
			}
			for _, at := range []int{0, 1, l.mem, size - 1} {
				if at >= 0 && at < size {
					out = append(out, c15case{side: "response", lim: l, size: size, chunk: 0, method: "GET", status: 200, clientBreaksAt: at})
					out = append(out, c15case{side: "response", lim: l, size: size, chunk: 3, method: "POST", status: 500, retries: 1, clientBreaksAt: at})
				}
			}
			for _, wp := range []int{0, 3} {
				for _, status := range []int{99, 1000} {
					for _, retries := range []int{0, 1} {
						out = append(out, c15case{side: "response", lim: l, size: size, chunk: wp, method: "GET", status: status, retries: retries, clientBreaksAt: -1})
					}
				}
			}
			for wp := range writePatterns {
				for _, method := range []string{"GET", "HEAD", "POST"} {
					for _, status := range []int{200, 204, 304, 500} {
						for hdr := range respHdrs {
							for _, retries := range []int{0, 1, 2} {
								out = append(out, c15case{side: "response", lim: l, size: size, chunk: wp, method: method, status: status, hdr: hdr, retries: retries, clientBreaksAt: -1})
								if method == "GET" && hdr == 0 && retries == 0 && (status == 200 || status == 500) {
									out = append(out, c15case{side: "response", lim: l, size: size, chunk: wp, method: method, status: status, upgrade: true, clientBreaksAt: -1})
								}
							}
						}
					}
				}
			}
		}
	}
	if tier == "thorough" {
		big := limits{1 << 20, 2 << 20}
		for _, size := range []int{1<<20 - 1, 1 << 20, 1<<20 + 1, 2<<20 - 1, 2 << 20, 2<<20 + 1} {
			out = append(out, c15case{side: "request", lim: big, size: size, chunk: 0, method: "POST", clientBreaksAt: -1})
			out = append(out, c15case{side: "request", lim: big, size: size, chunk: 65536, method: "POST", retries: 1, clientBreaksAt: -1})
			for _, status := range []int{200, 204} {
				out = append(out, c15case{side: "response", lim: big, size: size, chunk: 0, method: "GET", status: status, retries: 1, clientBreaksAt: -1})
			}
		}
	}
	return out
}

func RunC15(tier string, sh lib.Shard, rep *lib.Report) {
	cases := c15cases(tier)
	rep.Bounds["cases"] = len(cases)
	rep.Rule = "full product (memory threshold, maximum) in {(8,16),(16,16),(32,16),(8,unlimited)} x size {0,mem-1,mem,mem+1,max-1,max,max+1,2max} x request framing {declared, chunked 1/5, unknown length without chunking (HTTP/2 stream), declared length understating the body} / response write pattern {one, straddling mem, straddling max, bytewise} x method x response status {200,204,304,500; 99 and 1000, which the client writer refuses} x header {-,Content-Length:0,Grpc-Status:1} x retries {0,1,2}, also for requests that ask for an upgrade which the handler declines; long-lived Buffer instances (one per side x limits x retries; the other direction's maximum spelled out as 0 = unlimited after / before / not at all) serving their cases in sequence; private $TMPDIR per worker inspected after every exchange; non-trivial = exchanges that spilled to disk or exceeded a limit"
	rep.Require("request_spills", "response_spills", "oversized_requests", "oversized_responses", "aborted_exchanges", "broken_client_connections", "responses_with_a_status_the_client_writer_refuses")
	for i, c := range cases {
		if !sh.Mine(i) {
			continue
		}
		if lib.Expired() {
			rep.Exhaustive = false
			break
		}
		c15pos.tier, c15pos.shard, c15pos.index = tier, sh, i
		runC15(c, rep)
		if i%4001 == 0 {
			rep.Sample(4, c.String())
		}
	}
	if tmpDir != "" {
		os.RemoveAll(tmpDir)
	}
	rep.Nontrivial = rep.Counters["request_spills"] + rep.Counters["response_spills"] + rep.Counters["oversized_requests"] + rep.Counters["oversized_responses"]
}

func ReplayC15(rp map[string]any) (bool, string) {
	want, _ := rp["case"].(string)
	if idx, ok := rp["index"].(float64); ok {
		// re-run, on fresh long-lived instances, exactly the cases this worker had run up to the failing one
		tier, _ := rp["tier"].(string)
		shs, _ := rp["shard"].(string)
		sh := lib.ParseShard(shs)
		c15instances = map[string]*c15instance{}
		key, _ := rp["key"].(string)
		var last *lib.Report
		for i, c := range c15cases(tier) {
			if i > int(idx) {
				break
			}
			if !sh.Mine(i) {
				continue
			}
			last = lib.NewReport("C15", "replay")
			c15pos.tier, c15pos.shard, c15pos.index = tier, sh, i
			runC15(c, last)
		}
		if tmpDir != "" {
			os.RemoveAll(tmpDir)
		}
		if last != nil {
			for _, v := range last.Violations {
				if v.Key == key {
					return true, v.Key + " :: " + v.Detail
				}
			}
			if len(last.Violations) > 0 {
				return true, last.Violations[0].Key + " :: " + last.Violations[0].Detail
			}
		}
		return false, "limits enforced and no temporary file left"
	}
	for _, tier := range []string{"quick", "thorough"} {
		for _, c := range c15cases(tier) {
			if c.String() == want {
				rep := lib.NewReport("C15", "replay")
				runC15(c, rep)
				if tmpDir != "" {
					os.RemoveAll(tmpDir)
				}
				if len(rep.Violations) > 0 {
					return true, rep.Violations[0].Key + " :: " + rep.Violations[0].Detail
				}
				return false, "limits enforced and no temporary file left"
			}
		}
	}
	return false, "unknown case"
}

package fwd

import (
	"bytes"
	"context"
	"fmt"
	"net"
	"net/http"
	"net/url"
	"strings"
	"sync"
	"time"

	"github.com/vulcand/oxy/v2/forward"
	"github.com/vulcand/oxy/v2/utils"
	"github.com/vulcand/oxy/v2/zverif/lib"
)

// response scripts: status x header set x body size x framing, as a list of writes
type respScript struct {
	status  int
	hdr     int
	size    int
	framing string // content-length, chunked, close
	info    bool   // the backend sends "103 Early Hints" before the final response
	salt    int    // varies the body bytes (two exchanges in flight must not be able to pass for each other)
}

func (r respScript) String() string {
	s := fmt.Sprintf("status=%d headers#%d body=%d framing=%s", r.status, r.hdr, r.size, r.framing)
	if r.info {
		s += " after-103"
	}
	return s
}

var earlyHints = []byte("HTTP/1.1 103 Early Hints\r\nLink: </style.css>; rel=preload\r\n\r\n")

// clientView is the client's side of the exchange as a net/http server would produce it: informational
// (1xx) heads are passed on without ending the response, the first status >= 200 is THE status, a write
// without one means 200.
type clientView struct {
	h      http.Header
	code   int
	final  http.Header
	info   []int
	body   bytes.Buffer
	flushs int
	// a slow client: the stallAt-th Write blocks (before it looks at the bytes) until resume is closed
	stallAt int
	writes  int
	stalled chan struct{}
	resume  chan struct{}
}

func (c *clientView) Header() http.Header { return c.h }
func (c *clientView) WriteHeader(code int) {
	if code >= 100 && code < 200 && code != http.StatusSwitchingProtocols {
		if c.code == 0 {
			c.info = append(c.info, code)
		}
		return
	}
	if c.code == 0 {
		c.code, c.final = code, c.h.Clone()
	}
}
func (c *clientView) Write(p []byte) (int, error) {
	if c.code == 0 {
		c.WriteHeader(200)
	}
	c.writes++
	if c.stallAt > 0 && c.writes == c.stallAt {
		close(c.stalled)
		<-c.resume
	}
	return c.body.Write(p)
}
func (c *clientView) Flush() { c.flushs++ }

var statusText = map[int]string{200: "OK", 201: "Created", 204: "No Content", 301: "Moved Permanently", 304: "Not Modified", 404: "Not Found", 500: "Internal Server Error", 503: "Service Unavailable", 799: "Custom Status"}

var respHeaderSets = [][][2]string{
	{{"X-E2e", "1"}},
	{{"X-Multi", "a"}, {"X-Multi", "b"}, {"Set-Cookie", "k=v; Path=/"}, {"Set-Cookie", "k2=v2"}, {"Content-Type", "application/x-test"}, {"Location", "http://elsewhere/x%20y"}},
	{{"Keep-Alive", "timeout=3"}, {"Proxy-Authenticate", "Basic"}, {"X-E2e", "kept"}, {"Connection", "X-Hop"}, {"X-Hop", "drop-me"}},
}

func payload(n int) []byte { return payloadS(n, 0) }

func payloadS(n, salt int) []byte {
	b := make([]byte, n)
	for i := range b {
		b[i] = byte('A' + (i*11+i/251+salt)%26)
	}
	return b
}

// steps renders the script as the sequence of writes the backend performs.
func (r respScript) steps() []step {
	var head bytes.Buffer
	fmt.Fprintf(&head, "HTTP/1.1 %d %s\r\n", r.status, statusText[r.status])
	for _, h := range respHeaderSets[r.hdr] {
		fmt.Fprintf(&head, "%s: %s\r\n", h[0], h[1])
	}
	body := payloadS(r.size, r.salt)
	bodyless := r.status == 204 || r.status == 304
	switch {
	case bodyless:
		head.WriteString("\r\n")
		if r.info {
			return []step{{stepWrite, earlyHints}, {stepWrite, head.Bytes()}}
		}
		return []step{{stepWrite, head.Bytes()}}
	case r.framing == "content-length":
		fmt.Fprintf(&head, "Content-Length: %d\r\n\r\n", len(body))
	case r.framing == "chunked":
		head.WriteString("Transfer-Encoding: chunked\r\n\r\n")
	default:
		head.WriteString("\r\n") // close-delimited: the body ends when the backend closes
	}
	// split the head in two writes, the body in pieces of at most 16 KiB + 1
	hb := head.Bytes()
	var out []step
	if r.info {
		out = append(out, step{stepWrite, earlyHints})
	}
	out = append(out, step{stepWrite, hb[:len(hb)/2]}, step{stepWrite, hb[len(hb)/2:]})
	const piece = 16*1024 + 1
	for i := 0; i < len(body); i += piece {
		j := i + piece
		if j > len(body) {
			j = len(body)
		}
		p := body[i:j]
		if r.framing == "chunked" {
			p = append(append([]byte(fmt.Sprintf("%x\r\n", len(p))), p...), '\r', '\n')
		}
		out = append(out, step{stepWrite, p})
	}
	if r.framing == "chunked" {
		out = append(out, step{stepWrite, []byte("0\r\n\r\n")})
	}
	if r.framing == "close" {
		out = append(out, step{kind: stepClose})
	}
	return out
}

func respScripts(tier string) []respScript {
	sizes := []int{0, 1, 4095, 32*1024 + 1}
	if tier == "thorough" {
		sizes = append(sizes, 1<<20)
	}
	var out []respScript
	for _, st := range []int{200, 201, 204, 301, 304, 404, 500, 503, 799} { // 799: any three-digit status is relayed, registered or not
		for h := range respHeaderSets {
			for _, sz := range sizes {
				for _, fr := range []string{"content-length", "chunked", "close"} {
					if (st == 204 || st == 304) && (sz != 0 || fr != "content-length") {
						continue
					}
					out = append(out, respScript{st, h, sz, fr, false, 0})
					if h == 0 && sz <= 4095 {
						out = append(out, respScript{st, h, sz, fr, true, 0})
					}
				}
			}
		}
	}
	return out
}

// client request shapes for the fault-free relays: legal but unusual heads. Whatever the
// client sends, a healthy backend's response must come back unchanged and the proxy must not crash.
type reqShape struct {
	name    string
	method  string
	headers [][2]string
	body    string
	chunk   int
}

var reqShapes = []reqShape{
	{"plain", "GET", nil, "", 0},
	{"connection-trailing-comma", "GET", [][2]string{{"Connection", "keep-alive,"}}, "", 0},
	{"connection-empty-element", "GET", [][2]string{{"Connection", "keep-alive, ,x-real-ip"}, {"X-Real-Ip", "9.9.9.9"}}, "", 0},
	{"connection-empty-value", "GET", [][2]string{{"Connection", ""}}, "", 0},
	{"connection-only-commas", "GET", [][2]string{{"Connection", " , ,"}}, "", 0},
	{"connection-twice", "GET", [][2]string{{"Connection", "X-A"}, {"Connection", ""}, {"X-A", "1"}}, "", 0},
	{"connection-close", "GET", [][2]string{{"Connection", "close"}}, "", 0},
	{"connection-upgrade-without-upgrade", "GET", [][2]string{{"Connection", "Upgrade"}}, "", 0},
	{"te-trailers", "GET", [][2]string{{"Te", "trailers"}, {"Connection", "Te"}}, "", 0},
	{"forwarded-lists", "GET", [][2]string{{"X-Forwarded-For", "1.1.1.1, 2.2.2.2"}, {"X-Forwarded-For", ""}, {"X-Real-Ip", ""}, {"X-Forwarded-Proto", ""}}, "", 0},
	{"range-and-encoding", "GET", [][2]string{{"Accept-Encoding", "gzip"}, {"Range", "bytes=0-0"}, {"If-None-Match", "\"x\""}}, "", 0},
	{"empty-and-long-values", "GET", [][2]string{{"X-Empty", ""}, {"X-Long", strings.Repeat("v", 8000)}}, "", 0},
	{"post-declared", "POST", [][2]string{{"Content-Type", "text/plain"}}, "hello", 0},
	{"post-chunked", "POST", nil, "hello world", 4},
	{"post-empty", "POST", nil, "", 0},
	{"options", "OPTIONS", [][2]string{{"Max-Forwards", "0"}}, "", 0},
}

type c16world struct {
	evMu     sync.Mutex
	evCount  map[int]int   // notifications ever received, by state (never reset: overlapping exchanges)
	panicOn  int           // the user's listener callback panics once on this notification (-1: never)
	watchdog time.Duration // 0: 30s
	stalling bool          // the current script contains a stall: use the forwarder with the short response-header timeout
	shape    int
	backend  *Backend
	proxy    http.Handler
	events   []int
	url      *url.URL
	deadline time.Duration // >0: the request context carries this deadline
}

func newC16World() *c16world {
	w := &c16world{backend: NewBackend(), evCount: map[int]int{}}
	w.url = &url.URL{Scheme: "http", Host: w.backend.Addr}
	// two forwarders: the response-header timeout of 150ms is part of the STALL scenarios only; every other
	// exchange runs with a 20s timeout so that a loaded machine cannot turn a healthy relay into a 504
	f := forward.New(false)
	f.Transport = &http.Transport{ResponseHeaderTimeout: 150 * time.Millisecond, MaxIdleConns: 1, IdleConnTimeout: time.Second}
	fPatient := forward.New(false)
	fPatient.Transport = &http.Transport{ResponseHeaderTimeout: 20 * time.Second, MaxIdleConns: 1, IdleConnTimeout: time.Second}
	inner := http.HandlerFunc(func(rw http.ResponseWriter, r *http.Request) {
		r.URL = w.url
		if w.stalling {
			f.ServeHTTP(rw, r)
		} else {
			fPatient.ServeHTTP(rw, r)
		}
	})
	w.panicOn = -1
	w.proxy = forward.NewStateListener(inner, func(u *url.URL, state int) {
		w.events = append(w.events, state)
		w.evMu.Lock()
		w.evCount[state]++
		w.evMu.Unlock()
		if state == w.panicOn {
			w.panicOn = -1
			panic("listener callback failed")
		}
	})
	return w
}

type outcome struct {
	code   int
	body   []byte
	header http.Header
	panic  any
	hung   bool
	events []int
	pwCode int
	info   []int
}

// exchange runs one request through the proxy with a watchdog; cancelAfterArrival
// cancels the request's context once the backend has received it.
func (w *c16world) exchange(script []step, target *url.URL, cancelOnArrival bool) (outcome, func()) {
	w.events = nil
	w.stalling = false
	for _, st := range script {
		if st.kind == stepStall {
			w.stalling = true
		}
	}
	w.backend.Drain()
	release := w.backend.Play(script)
	saved := w.url
	if target != nil {
		w.url = target
	}
	defer func() { w.url = saved }()
	// the request carries http.ServerContextKey exactly as under a real http.Server: the
	// reverse proxy aborts a broken exchange (panic ErrAbortHandler) only then
	ctx, cancel := context.WithCancel(context.WithValue(context.Background(), http.ServerContextKey, &http.Server{}))
	if w.deadline > 0 {
		var c2 context.CancelFunc
		ctx, c2 = context.WithTimeout(ctx, w.deadline)
		defer c2()
	}
	sh := reqShapes[w.shape]
	parsed, perr := lib.ParseRequest(lib.RawRequest(sh.method, "/x?y=1", sh.headers, []byte(sh.body), sh.chunk))
	if perr != nil {
		panic(fmt.Sprintf("request shape %s does not parse: %v", sh.name, perr))
	}
	req := parsed.WithContext(ctx)
	done := make(chan outcome, 1)
	go func() {
		rr := &clientView{h: http.Header{}}
		pw := utils.NewProxyWriter(rr)
		var o outcome
		func() {
			defer func() { o.panic = recover() }()
			w.proxy.ServeHTTP(pw, req)
		}()
		o.code, o.body, o.header, o.pwCode, o.info = rr.code, rr.body.Bytes(), rr.final, pw.StatusCode(), rr.info
		if o.code == 0 && o.panic == nil {
			o.code, o.header = 200, rr.h // the handler returned without a status: net/http sends 200
		}
		if o.header == nil {
			o.header = http.Header{}
		}
		done <- o
	}()
	if cancelOnArrival {
		go func() {
			if w.backend.Received(20*time.Second) != nil {
				cancel()
			}
		}()
	}
	var o outcome
	select {
	case o = <-done:
	case <-time.After(func() time.Duration {
		if w.watchdog > 0 {
			return w.watchdog
		}
		return 30 * time.Second
	}()):
		o.hung = true
	}
	o.events = append([]int{}, w.events...)
	return o, func() { release(); cancel() }
}

// ---- the same forwarder behind a REAL net/http server (and a status-recording writer, as a breaker or tracer
// puts in front of it), observed by a raw TCP client: what only exists on the wire - trailers, framing - is
// compared here with what the backend sent.

func trailerSteps(size int, announced bool, salt int) []step {
	var head bytes.Buffer
	head.WriteString("HTTP/1.1 200 OK\r\nX-E2e: 1\r\n")
	if announced {
		head.WriteString("Trailer: X-Checksum\r\n")
	}
	head.WriteString("Transfer-Encoding: chunked\r\n\r\n")
	out := []step{{stepWrite, head.Bytes()}}
	if size > 0 {
		p := payloadS(size, salt)
		out = append(out, step{stepWrite, append(append([]byte(fmt.Sprintf("%x\r\n", len(p))), p...), '\r', '\n')})
	}
	out = append(out, step{stepWrite, []byte("0\r\nX-Checksum: abc123\r\nX-Other-Trailer: t2\r\n\r\n")})
	return out
}

func (w *c16world) runWire(rep *lib.Report) {
	front := lib.StartServer(http.HandlerFunc(func(rw http.ResponseWriter, r *http.Request) {
		w.proxy.ServeHTTP(utils.NewProxyWriter(rw), r)
	}))
	defer front.Close()
	w.stalling = false
	get := func(script []step) (*http.Response, []byte, string) {
		w.backend.Drain()
		w.backend.Play(script)
		raw, hung, err := lib.RawExchange(front.Addr, []byte("GET /x?y=1 HTTP/1.1\r\nHost: front.example\r\nConnection: close\r\n\r\n"), 20*time.Second)
		if hung || err != nil {
			return nil, nil, fmt.Sprintf("hung=%v err=%v", hung, err)
		}
		rs, bodies, perr := lib.ParseResponses(raw, "GET")
		for len(rs) > 1 && rs[0].StatusCode >= 100 && rs[0].StatusCode < 200 {
			rs, bodies = rs[1:], bodies[1:] // informational responses precede the final one
		}
		if perr != nil || len(rs) != 1 {
			return nil, nil, fmt.Sprintf("%d responses on the wire (%v): %.120q", len(rs), perr, raw)
		}
		return rs[0], bodies[0], ""
	}
	what := func(n string) map[string]any {
		return map[string]any{"engine": "enum", "part": "c16", "mode": "wire", "name": n}
	}
	// trailers: announced or not, after an empty or a non-empty body
	for _, size := range []int{0, 1, 4095} {
		for _, announced := range []bool{true, false} {
			name := fmt.Sprintf("trailers body=%d announced=%v", size, announced)
			resp, body, bad := get(trailerSteps(size, announced, 5))
			rep.Evaluations++
			switch {
			case bad != "":
				rep.Violate("C16:wire:exchange-failed", name+": "+bad, what(name))
			case resp.StatusCode != 200 || !bytes.Equal(body, payloadS(size, 5)) || resp.Header.Get("X-E2e") != "1":
				rep.Violate("C16:wire:response-altered", fmt.Sprintf("%s: status %d, %d body bytes, X-E2e=%q", name, resp.StatusCode, len(body), resp.Header.Get("X-E2e")), what(name))
			case resp.Trailer.Get("X-Checksum") != "abc123" || resp.Trailer.Get("X-Other-Trailer") != "t2":
				rep.Violate("C16:wire:trailer-lost", fmt.Sprintf("%s: the backend sent trailers X-Checksum: abc123 and X-Other-Trailer: t2, the client received trailers %v", name, resp.Trailer), what(name))
			default:
				rep.Count("wire_exchanges_with_trailers")
			}
		}
	}
	// a few ordinary scripts over the wire as well
	for _, r := range []respScript{{200, 1, 4095, "chunked", false, 2}, {404, 0, 1, "content-length", false, 2}, {201, 1, 0, "content-length", false, 0}, {200, 0, 1, "close", false, 4}, {503, 2, 4095, "content-length", true, 6}} {
		resp, body, bad := get(r.steps())
		rep.Evaluations++
		want := payloadS(r.size, r.salt)
		switch {
		case bad != "":
			rep.Violate("C16:wire:exchange-failed", r.String()+": "+bad, what(r.String()))
		case resp.StatusCode != r.status || !bytes.Equal(body, want):
			rep.Violate("C16:wire:response-altered", fmt.Sprintf("%v: status %d, %d body bytes (want %d, %d)", r, resp.StatusCode, len(body), r.status, len(want)), what(r.String()))
		default:
			rep.Count("wire_exchanges")
		}
	}
}

func eventsOK(ev []int) bool {
	return len(ev) == 2 && ev[0] == forward.StateConnected && ev[1] == forward.StateDisconnected
}

func runFaultFree(w *c16world, r respScript, rep *lib.Report) {
	what := map[string]any{"engine": "enum", "part": "c16", "mode": "relay", "script": r.String(), "request_shape": reqShapes[w.shape].name}
	if w.shape != 0 {
		what["request"] = reqShapes[w.shape].name
		rep.Count("relays_with_unusual_request_heads")
	}
	o, done := w.exchange(r.steps(), nil, false)
	defer done()
	rep.Evaluations++
	if o.hung {
		rep.Violate("C16:hang:fault-free", r.String(), what)
		return
	}
	if o.panic != nil {
		rep.Violate("C16:relay-aborted", fmt.Sprintf("%v, request %s: panic %v", r, reqShapes[w.shape].name, o.panic), what)
		return
	}
	if o.code != r.status {
		rep.Violate("C16:status-altered", fmt.Sprintf("%v: client got %d", r, o.code), what)
		return
	}
	want := payload(r.size)
	if r.status == 204 || r.status == 304 {
		want = nil
	}
	if !bytes.Equal(o.body, want) {
		rep.Violate("C16:body-altered:"+r.framing, fmt.Sprintf("%v: client got %d bytes, backend sent %d", r, len(o.body), len(want)), what)
		return
	}
	wantH := http.Header{}
	for _, h := range respHeaderSets[r.hdr] {
		wantH.Add(h[0], h[1])
	}
	for _, hop := range []string{"Keep-Alive", "Proxy-Authenticate", "Connection", "X-Hop"} {
		if r.hdr == 2 && len(o.header[hop]) > 0 {
			rep.Violate("C16:response-hop-by-hop-forwarded", fmt.Sprintf("%v: client got %s: %v", r, hop, o.header[hop]), what)
			return
		}
		wantH.Del(hop)
	}
	for k, v := range wantH {
		if fmt.Sprint(o.header[k]) != fmt.Sprint(v) {
			rep.Violate("C16:response-header-altered", fmt.Sprintf("%v: %s = %v, backend sent %v", r, k, o.header[k], v), what)
			return
		}
	}
	if !eventsOK(o.events) {
		rep.Violate("C16:listener-events-unpaired:fault-free", fmt.Sprintf("%v: events %v", r, o.events), what)
		return
	}
	if r.info {
		rep.Count("relays_after_an_informational_response")
		if o.pwCode != r.status {
			rep.Violate("C16:recorded-status-differs", fmt.Sprintf("%v: the status-recording writer in front of the forwarder recorded %d (informational %v were relayed first)", r, o.pwCode, o.info), what)
			return
		}
	}
	if r.size > 4096 {
		rep.Count("large_bodies_relayed")
	}
	rep.Count("fault_free_relays")
}

type fault struct {
	name   string
	stepAt int      // index in the script where the fault replaces the rest (-1: special)
	kind   stepKind // close, reset, stall
}

// runFault: the script is cut at step k and the fault happens there.
func runFault(w *c16world, r respScript, k int, kind stepKind, rep *lib.Report) {
	steps := r.steps()
	if k > len(steps) {
		return
	}
	script := append(append([]step{}, steps[:k]...), step{kind: kind})
	kn := map[stepKind]string{stepClose: "close", stepReset: "reset", stepStall: "stall"}[kind]
	headSteps := 2
	if r.status == 204 || r.status == 304 {
		headSteps = 1
	}
	if r.info {
		headSteps++ // the informational head comes first
	}
	phase := "before-any-byte"
	switch {
	case k == 0:
	case r.info && k == 1:
		phase = "after-informational" // 103 relayed, nothing of the final response yet
	case k < headSteps:
		phase = "inside-head"
	case k == len(steps):
		phase = "after-complete-response"
	default:
		phase = "inside-body"
	}
	what := map[string]any{"engine": "enum", "part": "c16", "mode": "fault", "script": r.String(), "step": k, "fault": kn}
	o, done := w.exchange(script, nil, false)
	defer done()
	rep.Evaluations++
	rep.Count("faults_injected")
	tag := kn + ":" + phase
	if o.hung {
		// re-run before believing a watchdog hit
		for try := 0; try < 4 && o.hung; try++ {
			done()
			o, done = w.exchange(script, nil, false)
		}
		if o.hung {
			rep.Violate("C16:hang:"+tag, fmt.Sprintf("%v fault %s at step %d: the proxy did not finish within 30s (5 tries)", r, kn, k), what)
			return
		}
	}
	switch phase {
	case "after-informational":
		// the backend HAS begun to respond (103 relayed) and then fails before the final head: like a broken
		// head this may be mapped to 500 or 502; a stall is still a response timeout
		if kind == stepStall {
			if o.panic != nil || o.code != 504 {
				rep.Violate("C16:wrong-gateway-status:"+tag, fmt.Sprintf("%v: backend stalled after the informational response: client got %d (panic %v), want 504", r, o.code, o.panic), what)
				return
			}
		} else if o.panic != nil || (o.code != 500 && o.code != 502) {
			rep.Violate("C16:wrong-gateway-status:"+tag, fmt.Sprintf("%v: backend %s after the informational response: client got %d (panic %v), want an error status (500 or 502)", r, kn, o.code, o.panic), what)
			return
		}
		rep.Count("gateway_errors_mapped")
	case "before-any-byte":
		want := 502
		if kind == stepStall {
			want = 504
		}
		if o.panic != nil || o.code != want {
			rep.Violate(fmt.Sprintf("C16:wrong-gateway-status:%s", tag), fmt.Sprintf("%v: backend %s %s: client got %d (panic %v), want %d", r, kn, phase, o.code, o.panic, want), what)
			return
		}
		rep.Count("gateway_errors_mapped")
	case "inside-head":
		if kind == stepStall {
			if o.panic != nil || o.code != 504 {
				rep.Violate("C16:wrong-gateway-status:"+tag, fmt.Sprintf("%v: backend stalled inside the response head: client got %d (panic %v), want 504", r, o.code, o.panic), what)
				return
			}
		} else if o.panic != nil || (o.code != 500 && o.code != 502) {
			rep.Violate("C16:wrong-gateway-status:"+tag, fmt.Sprintf("%v: backend %s inside the response head: client got %d (panic %v), want an error status (500 or 502)", r, kn, o.code, o.panic), what)
			return
		}
		rep.Count("gateway_errors_mapped")
	case "inside-body":
		// the head has been relayed: the exchange must be aborted or truncated, never hang; if the
		// fault is an orderly close of a close-delimited body the truncated body IS the body
		if o.panic != nil && o.panic != http.ErrAbortHandler {
			rep.Violate("C16:proxy-crash:"+tag, fmt.Sprintf("%v: panic %v (only http.ErrAbortHandler may abort an exchange)", r, o.panic), what)
			return
		}
		if o.code != r.status {
			rep.Violate("C16:status-altered:"+tag, fmt.Sprintf("%v: head was complete with status %d, client got %d", r, r.status, o.code), what)
			return
		}
		if len(o.body) > r.size || !bytes.Equal(o.body, payload(r.size)[:len(o.body)]) {
			rep.Violate("C16:body-altered:"+tag, fmt.Sprintf("%v: client got %d bytes which are not a prefix of the backend's body", r, len(o.body)), what)
			return
		}
		if o.panic != nil {
			rep.Count("aborted_mid_body")
		} else if kind != stepStall && r.framing != "close" && len(o.body) < r.size {
			// the backend announced how the body ends (a length, a terminating chunk) and died before that: the handler
			// must ABORT the exchange (http.ErrAbortHandler reaching the server, which then drops the connection) - a
			// handler that returns normally makes the server complete the response, and the client takes the
			// truncated body for the whole one
			rep.Violate("C16:truncated-body-delivered-as-complete:"+r.framing, fmt.Sprintf("%v: backend %s after %d of %d body bytes; the proxy handler returned normally (no abort), so the client is handed a complete-looking response with %d bytes", r, kn, len(o.body), r.size, len(o.body)), what)
			return
		}
	case "after-complete-response":
		if kind == stepReset && o.panic == http.ErrAbortHandler && o.code == r.status && len(o.body) <= r.size && bytes.Equal(o.body, payload(r.size)[:len(o.body)]) {
			// a RESET that follows the complete response may overtake it: TCP discards what the receiver has not read
			// yet when the reset arrives, so the proxy may see the connection break inside the body (always possible,
			// likely for a large body on a busy machine). Then the exchange is an "inside-body" one: aborted, with a
			// prefix of the body - which is what was just checked
			rep.Count("resets_overtaking_a_complete_response")
			break
		}
		if o.panic != nil || o.code != r.status {
			rep.Violate("C16:complete-response-lost:"+tag, fmt.Sprintf("%v: client got %d (panic %v)", r, o.code, o.panic), what)
			return
		}
	}
	if !eventsOK(o.events) {
		ab := ""
		if o.panic != nil {
			ab = ":aborted"
		}
		rep.Violate("C16:listener-events-unpaired"+ab, fmt.Sprintf("%v fault %s at step %d (%s): listener saw %v, want [connected disconnected]", r, kn, k, phase, o.events), what)
	}
}

func runSpecials(w *c16world, rep *lib.Report) {
	what := func(n string) map[string]any {
		return map[string]any{"engine": "enum", "part": "c16", "mode": "special", "name": n}
	}
	// connection refused
	ln, _ := net.Listen("tcp", "127.0.0.1:0")
	dead := ln.Addr().String()
	ln.Close()
	o, done := w.exchange(nil, &url.URL{Scheme: "http", Host: dead}, false)
	done()
	rep.Evaluations++
	if o.hung || o.panic != nil || o.code != 502 || !eventsOK(o.events) {
		rep.Violate("C16:wrong-gateway-status:connection-refused", fmt.Sprintf("connection refused: client got %d (panic %v hung %v events %v), want 502", o.code, o.panic, o.hung, o.events), what("refused"))
	} else {
		rep.Count("gateway_errors_mapped")
	}
	// garbage head
	for _, g := range []string{"garbage\r\n\r\n", "HTTP/1.1 abc OK\r\n\r\n", "HTTP/1.1 200\r\nno-colon-header\r\n\r\n", "\x00\x01\x02\x03"} {
		o, done := w.exchange([]step{{stepWrite, []byte(g)}, {kind: stepClose}}, nil, false)
		done()
		rep.Evaluations++
		if o.hung || o.panic != nil || (o.code != 500 && o.code != 502) || !eventsOK(o.events) {
			rep.Violate("C16:wrong-gateway-status:garbage-head", fmt.Sprintf("backend answered %q: client got %d (panic %v hung %v events %v), want an error status", g, o.code, o.panic, o.hung, o.events), what("garbage"))
		} else {
			rep.Count("gateway_errors_mapped")
		}
	}
	// a timeout middleware in front of the forwarder: the response deadline is a deadline on the request context
	{
		w.deadline = 40 * time.Millisecond // well before the transport's own 150ms response-header timeout
		o, done := w.exchange([]step{{kind: stepStall}}, nil, false)
		w.deadline = 0
		done()
		rep.Evaluations++
		if o.hung || o.panic != nil || o.code != 504 || !eventsOK(o.events) {
			rep.Violate("C16:wrong-gateway-status:context-deadline", fmt.Sprintf("backend stalls, request context has a deadline: client got %d/%d (panic %v hung %v events %v), want 504", o.code, o.pwCode, o.panic, o.hung, o.events), what("ctx-deadline"))
		} else {
			rep.Count("gateway_errors_mapped")
		}
	}
	// the user's listener callback fails once (on either notification): whatever happens to THAT exchange, the
	// following ordinary exchanges must be relayed as usual - no hang, pairing intact
	okScript := respScript{200, 0, 1, "content-length", false, 0}
	for _, on := range []int{forward.StateConnected, forward.StateDisconnected} {
		w.panicOn = on
		_, d0 := w.exchange(okScript.steps(), nil, false)
		d0()
		w.panicOn = -1
		w.watchdog = 10 * time.Second
		for k := 0; k < 2; k++ {
			o, done := w.exchange(okScript.steps(), nil, false)
			done()
			rep.Evaluations++
			if o.hung || o.panic != nil || o.code != 200 || string(o.body) != string(payload(1)) || !eventsOK(o.events) {
				rep.Violate("C16:exchange-after-failed-listener-callback", fmt.Sprintf("after the listener callback panicked once on notification %d, ordinary exchange #%d: status %d, hung %v, panic %v, events %v", on, k+1, o.code, o.hung, o.panic, o.events), what("listener-panic"))
				break
			}
			rep.Count("exchanges_after_failed_listener_callback")
		}
		w.watchdog = 0
	}
	// two exchanges in flight through the same forwarder: client A stops reading in the middle of a large body
	// (its k-th write blocks), B's exchange runs to completion meanwhile, then A resumes - each client must
	// receive exactly its own backend's bytes
	// (the forwarder is no longer fresh when they meet: 40 ordinary exchanges first, so that whatever it recycles -
	// copy buffers, writers - has been through a full turn; a replay starts from a fresh forwarder and needs the same)
	for k := 0; k < 40; k++ {
		_, dk := w.exchange(okScript.steps(), nil, false)
		dk()
	}
	for _, stallAt := range []int{1, 2, 3} {
		a := respScript{200, 0, 96 * 1024, "content-length", false, 3}
		b := respScript{201, 0, 80 * 1024, "chunked", false, 11}
		cv := &clientView{h: http.Header{}, stallAt: stallAt, stalled: make(chan struct{}), resume: make(chan struct{})}
		w.evMu.Lock()
		c0, d0 := w.evCount[forward.StateConnected], w.evCount[forward.StateDisconnected]
		w.evMu.Unlock()
		w.backend.Drain()
		w.stalling = false
		w.backend.Play(a.steps())
		ctx := context.WithValue(context.Background(), http.ServerContextKey, &http.Server{})
		pa, _ := lib.ParseRequest(lib.RawRequest("GET", "/x?y=1", nil, nil, 0)) // the very same target as B's request
		doneA := make(chan any, 1)
		go func() {
			defer func() { doneA <- recover() }()
			w.proxy.ServeHTTP(cv, pa.WithContext(ctx))
		}()
		select {
		case <-cv.stalled:
		case <-time.After(20 * time.Second):
			rep.DistrustF("overlap special: client A never reached its write #%d", stallAt)
			close(cv.resume)
			continue
		}
		oB, doneB := w.exchange(b.steps(), nil, false)
		doneB()
		close(cv.resume)
		var panA any
		hungA := false
		select {
		case panA = <-doneA:
		case <-time.After(30 * time.Second):
			hungA = true
		}
		rep.Evaluations++
		wa := what("overlap")
		wa["stall_at_write"] = stallAt
		switch {
		case hungA || panA != nil || oB.hung || oB.panic != nil:
			rep.Violate("C16:overlapping-exchanges-failed", fmt.Sprintf("A stalled at write %d: A hung %v panic %v; B hung %v panic %v", stallAt, hungA, panA, oB.hung, oB.panic), wa)
		case cv.code != 200 || !bytes.Equal(cv.body.Bytes(), payloadS(a.size, a.salt)):
			rep.Violate("C16:body-altered:overlapping-exchanges", fmt.Sprintf("client A (stalled at its write %d while another exchange completed) got status %d and %d bytes that are not its backend's %d bytes", stallAt, cv.code, cv.body.Len(), a.size), wa)
		case oB.code != 201 || !bytes.Equal(oB.body, payloadS(b.size, b.salt)):
			rep.Violate("C16:body-altered:overlapping-exchanges", fmt.Sprintf("client B (served while A was stalled at write %d) got status %d and %d bytes that are not its backend's %d bytes", stallAt, oB.code, len(oB.body), b.size), wa)
		default:
			w.evMu.Lock()
			c1, d1 := w.evCount[forward.StateConnected]-c0, w.evCount[forward.StateDisconnected]-d0
			w.evMu.Unlock()
			if c1 != 2 || d1 != 2 {
				rep.Violate("C16:listener-events-unpaired:overlapping-exchanges", fmt.Sprintf("two overlapping exchanges to the same backend URL: %d 'connected' and %d 'disconnected' notifications (want 2 and 2)", c1, d1), wa)
			} else {
				rep.Count("overlapping_exchanges")
			}
		}
	}
	// client goes away while the backend stalls
	o, done = w.exchange([]step{{kind: stepStall}}, nil, true)
	done()
	rep.Evaluations++
	if o.hung || o.panic != nil || (o.pwCode != 499 && o.code != 499) || !eventsOK(o.events) {
		rep.Violate("C16:client-cancellation-not-499", fmt.Sprintf("client cancelled while the backend stalled: recorded status %d/%d (panic %v hung %v events %v), want 499", o.code, o.pwCode, o.panic, o.hung, o.events), what("cancel"))
	} else {
		rep.Count("client_cancellations")
	}
}

func RunC16(tier string, sh lib.Shard, rep *lib.Report) {
	scripts := respScripts(tier)
	rep.Bounds["response_scripts"] = len(scripts)
	rep.Rule = "every backend response script (9 statuses incl. the unregistered 799 x 3 header sets x body sizes {0,1,4KiB-1,32KiB+1(,1MiB)} x framing {Content-Length, chunked, close-delimited}, written in several pieces; a third of them also preceded by a 103 informational response) relayed fault-free under each of 16 client request heads (Connection with empty list elements, twice, close, upgrade without Upgrade; TE; empty/list forwarding headers; long and empty values; POST declared/chunked/empty; OPTIONS), and with a fault {close, reset, stall} injected at EVERY step index of the script; plus connection refused, garbage heads and client cancellation; plus exchanges through a real net/http server to a raw TCP client (trailers announced or not after empty and non-empty bodies, framings); raw TCP backend, real forward.New proxy wrapped in a StateListener and a status-recording writer; non-trivial = faults injected"
	rep.Assume("ResponseHeaderTimeout 150ms is part of the stall scenarios (backend stalls until released), 20s everywhere else; 30s watchdog, hits re-run 5x", "broken or garbage heads may map to 500 or 502")
	rep.Require("fault_free_relays", "relays_after_an_informational_response", "relays_with_unusual_request_heads", "large_bodies_relayed", "faults_injected", "gateway_errors_mapped", "aborted_mid_body")
	w := newC16World()
	defer w.backend.Close()
	k := 0
	for _, r := range scripts {
		n := len(r.steps())
		for i := -1; i <= n; i++ {
			for _, kind := range []stepKind{stepClose, stepReset, stepStall} {
				if i == -1 && kind != stepClose {
					continue
				}
				mine := sh.Mine(k)
				k++
				if !mine {
					continue
				}
				if lib.Expired() {
					rep.Exhaustive = false
					return
				}
				if i == -1 {
					for si := range reqShapes {
						w.shape = si
						runFaultFree(w, r, rep)
					}
					w.shape = 0
					continue
				}
				if kind == stepStall && i >= 2 {
					// after the head no timeout applies: a backend that stalls inside the body makes any
					// proxy wait; "never a hang" is asserted for close and reset at those positions
					continue
				}
				runFault(w, r, i, kind, rep)
			}
		}
		if sh.Mine(k) {
			rep.Sample(4, r.String())
		}
	}
	if sh.I == 0 {
		w.runWire(rep)
		rep.Require("wire_exchanges_with_trailers", "wire_exchanges")
		runSpecials(w, rep)
		rep.Require("client_cancellations", "exchanges_after_failed_listener_callback", "overlapping_exchanges")
	}
	rep.Nontrivial = rep.Counters["faults_injected"]
}

func ReplayC16(rp map[string]any) (bool, string) {
	w := newC16World()
	defer w.backend.Close()
	rep := lib.NewReport("C16", "replay")
	if rp["mode"] == "wire" {
		w.runWire(rep)
	} else if rp["mode"] == "special" {
		runSpecials(w, rep)
	} else {
		for _, tier := range []string{"quick", "thorough"} {
			for _, r := range respScripts(tier) {
				if r.String() != rp["script"] || len(rep.Violations) > 0 {
					continue
				}
				if rp["mode"] == "relay" {
					for si, sh := range reqShapes {
						if sh.name == rp["request_shape"] {
							w.shape = si
						}
					}
					runFaultFree(w, r, rep)
					w.shape = 0
				} else {
					kind := map[string]stepKind{"close": stepClose, "reset": stepReset, "stall": stepStall}[rp["fault"].(string)]
					runFault(w, r, int(rp["step"].(float64)), kind, rep)
				}
			}
			if len(rep.Violations) > 0 {
				break
			}
		}
	}
	key, _ := rp["key"].(string)
	for _, v := range rep.Violations {
		if v.Key == key {
			return true, v.Key + " :: " + strings.SplitN(v.Detail, "\n", 2)[0]
		}
	}
	if len(rep.Violations) > 0 {
		return true, rep.Violations[0].Key + " :: " + rep.Violations[0].Detail
	}
	return false, "relay and failure mapping as specified"
}

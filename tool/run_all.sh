#!/bin/bash
# Runs every check of a tier in sequence and prints one line per check (used with `vp run`).
tier=${1:-thorough}
cd "$(dirname "$0")/.."
for p in C01 C02 C03 C04 C05 C06 C07 C08 C09 C10 C11 C12 C13 C14 C15 C16 C17 C18 C19 C20; do
  s=$(date +%s)
  ./vcheck $p $tier 2>&1 | grep -v "^KNOWN-FINDING" | cut -c1-400 | tail -4
  echo "   -> $p $tier took $(( $(date +%s) - s ))s"
done

//go:build verif

// Package vrt is the controlled scheduler of the E1 engine. Harness "threads" are
// real goroutines of which exactly one runs at a time; at every scheduling point
// (lock acquisition through the vsync shim, vrt.Yield, thread start/end, optional
// clock reads) the running thread parks and the explorer's choice sequence decides
// who continues.
//
// Every function here is //go:norace and the scheduler state is plain memory
// (no maps, no sync): a parked thread spins on runtime.Gosched() with
// GOMAXPROCS=1. The hand-off is therefore invisible to the race detector, which
// then sees only the program's own synchronisation (the real sync locks wrapped
// by vsync, goroutine creation, the final WaitGroup) and reports unsynchronised
// accesses between threads in whichever explored schedule executes both.
package vrt

import (
	"runtime"
	"sync"
)

// LockState is the scheduler's model of one lock (embedded in vsync types).
type LockState struct {
	ID      int // per-execution number, assigned at first use (0 = unseen)
	Epoch   int
	Writer  bool
	Readers int
}

const (
	ModeNone = iota
	ModeExcl
	ModeShared
)

type Thread struct {
	ID       int
	Name     string
	Done     bool
	Started  bool
	wantLock *LockState
	wantMode int
	kind     string
	fn       func()
	panicked any
}

// PointInfo is what the explorer needs to know about one scheduling decision.
type PointInfo struct {
	Enabled        int  // number of enabled threads
	RunningEnabled bool // the thread that was running is still enabled (choice 0 = continue it)
	Chosen         int  // index into the canonical enabled order
	Thread         int  // id of the thread chosen
	Kind           string
	Lock           int
}

type Exec struct {
	Threads []*Thread
	cur     int
	Prefix  []int
	// Guide (optional) names, by thread id, which thread takes each of the first
	// len(Guide) steps; the resulting choice indices are recorded like any others.
	// Used to drive a scenario into a prepared state before exploration starts.
	Guide        []GuideStep
	guideAt      int
	guideSteps   int
	GuidedPoints int // number of decisions taken under the guide
	Points       []PointInfo
	// Trace is the sequence (thread, kind, lock) of every step, for the determinism check.
	Trace       []int
	Deadlock    bool
	Horizon     bool
	Diverged    string // non-empty: replaying the prefix met a choice that is out of range
	abort       bool
	nlocks      int
	epoch       int
	MaxPoints   int
	UnlockPoint bool
	wg          sync.WaitGroup
	Fails       []Failure
}

type Failure struct{ Key, Detail string }

// X is the execution in progress (nil = scheduler inactive: vsync passes through).
var X *Exec
var epochCounter int

type abortSignal struct{}

//go:norace
func Active() bool { return X != nil && X.cur >= 0 }

// Current returns the id of the running thread (-1 outside an execution).
//
//go:norace
func Current() int {
	if X == nil {
		return -1
	}
	return X.cur
}

// Fail records an oracle failure observed inside a thread (norace: plain append).
//
//go:norace
func Fail(key, detail string) {
	if X != nil {
		X.Fails = append(X.Fails, Failure{key, detail})
	}
}

//go:norace
func (x *Exec) enabled(t *Thread) bool {
	if t.Done {
		return false
	}
	l := t.wantLock
	if l == nil {
		return true
	}
	if l.Epoch != x.epoch { // lock state left over from an earlier execution cannot exist (fresh objects), but be safe
		return true
	}
	switch t.wantMode {
	case ModeExcl:
		return !l.Writer && l.Readers == 0
	case ModeShared:
		return !l.Writer
	}
	return true
}

// decide picks the next thread to run. running is the id of the thread making the
// decision (-1 for the initial decision by the main goroutine).
//
//go:norace
func (x *Exec) decide(running int) int {
	var order [16]int
	n := 0
	runningEnabled := false
	if running >= 0 && x.enabled(x.Threads[running]) {
		order[n] = running
		n++
		runningEnabled = true
	}
	for _, t := range x.Threads {
		if t.ID != running && x.enabled(t) && n < len(order) {
			order[n] = t.ID
			n++
		}
	}
	if n == 0 {
		unfinished := false
		for _, t := range x.Threads {
			if !t.Done {
				unfinished = true
			}
		}
		if unfinished {
			x.Deadlock = true
			x.abort = true
		}
		return -1
	}
	if x.MaxPoints > 0 && len(x.Points) >= x.MaxPoints {
		x.Horizon = true
		x.abort = true
		return -1
	}
	choice := 0
	i := len(x.Points)
	if i < len(x.Prefix) {
		choice = x.Prefix[i]
		if choice >= n {
			x.Diverged = "choice out of range while replaying prefix"
			x.abort = true
			return -1
		}
	} else if x.guideAt < len(x.Guide) {
		// advance over guide steps whose goal has been reached
		for x.guideAt < len(x.Guide) {
			g := x.Guide[x.guideAt]
			t := x.Threads[g.T]
			reached := t.Done || (g.Until == "yield" && t.kind == "yield" && x.guideSteps > 0) || (g.Until == "step" && x.guideSteps > 0)
			if !reached {
				break
			}
			x.guideAt++
			x.guideSteps = 0
		}
		if x.guideAt < len(x.Guide) {
			choice = -1
			for k := 0; k < n; k++ {
				if order[k] == x.Guide[x.guideAt].T {
					choice = k
				}
			}
			if choice < 0 {
				x.Diverged = "guided thread is not enabled"
				x.abort = true
				return -1
			}
			x.guideSteps++
			x.GuidedPoints = i + 1
		}
	}
	chosen := order[choice]
	t := x.Threads[chosen]
	lockID := 0
	if t.wantLock != nil {
		lockID = t.wantLock.ID
	}
	x.Points = append(x.Points, PointInfo{Enabled: n, RunningEnabled: runningEnabled, Chosen: choice, Thread: chosen, Kind: t.kind, Lock: lockID})
	x.Trace = append(x.Trace, chosen, kindCode(t.kind), lockID)
	return chosen
}

//go:norace
func kindCode(k string) int {
	h := 0
	for i := 0; i < len(k); i++ {
		h = h*31 + int(k[i])
	}
	return h
}

//go:norace
func (x *Exec) waitTurn(id int) {
	for x.cur != id && !x.abort {
		runtime.Gosched()
	}
	if x.abort {
		panic(abortSignal{})
	}
}

// point parks the running thread with the given pending operation and resumes
// when the explorer schedules it again.
//
//go:norace
func (x *Exec) point(kind string, l *LockState, mode int) {
	id := x.cur
	t := x.Threads[id]
	t.kind, t.wantLock, t.wantMode = kind, l, mode
	if l != nil && l.Epoch != x.epoch {
		*l = LockState{Epoch: x.epoch}
	}
	if l != nil && l.ID == 0 {
		x.nlocks++
		l.ID = x.nlocks
	}
	next := x.decide(id)
	if next < 0 {
		panic(abortSignal{})
	}
	x.cur = next
	if next != id {
		x.waitTurn(id)
	}
	t.wantLock, t.wantMode = nil, ModeNone
}

// Yield is an explicit scheduling point ("the request is in flight").
//
//go:norace
func Yield() {
	if Active() {
		X.point("yield", nil, ModeNone)
	}
}

// PointNamed is an explicit scheduling point with a label (clock reads etc.).
//
//go:norace
func PointNamed(kind string) {
	if Active() {
		X.point(kind, nil, ModeNone)
	}
}

// Acquire is called by the vsync shim before taking the real lock.
//
//go:norace
func Acquire(l *LockState, mode int) {
	if !Active() {
		return
	}
	x := X
	kind := "lock"
	if mode == ModeShared {
		kind = "rlock"
	}
	x.point(kind, l, mode)
	if mode == ModeExcl {
		l.Writer = true
	} else {
		l.Readers++
	}
}

// Release is called by the vsync shim after releasing the real lock.
//
//go:norace
func Release(l *LockState, mode int) {
	if !Active() {
		return
	}
	x := X
	if l.Epoch != x.epoch {
		return // taken outside the scheduler (set-up phase)
	}
	if mode == ModeExcl {
		l.Writer = false
	} else if l.Readers > 0 {
		l.Readers--
	}
	if x.UnlockPoint && !x.abort {
		x.point("unlock", nil, ModeNone)
	}
}

// DeferGo (sequential harnesses built with the overlay): goroutines spawned by the
// code under test are queued instead of started, and run by RunDeferred at a point
// the harness chooses - this makes their effects deterministic.
var (
	DeferGo  bool
	Deferred []func()
)

// RunDeferred runs and clears the queued goroutine bodies; returns how many ran.
func RunDeferred() int {
	n := 0
	for len(Deferred) > 0 {
		fn := Deferred[0]
		Deferred = Deferred[1:]
		fn()
		n++
	}
	return n
}

// Go turns a `go` statement of the code under test into a scheduled thread.
//
//go:norace
func Go(fn func()) {
	if !Active() {
		if DeferGo {
			Deferred = append(Deferred, fn)
			return
		}
		go fn()
		return
	}
	x := X
	t := &Thread{ID: len(x.Threads), Name: "spawned", fn: fn, kind: "start"}
	x.Threads = append(x.Threads, t)
	x.wg.Add(1)
	go x.body(t)
}

//go:norace
func (x *Exec) body(t *Thread) {
	defer x.wg.Done()
	defer func() {
		if r := recover(); r != nil {
			if _, ok := r.(abortSignal); !ok {
				t.panicked = r
			}
		}
		x.finish(t)
	}()
	x.waitTurn(t.ID)
	t.Started = true
	t.fn()
}

//go:norace
func (x *Exec) finish(t *Thread) {
	t.Done = true
	if x.abort {
		return
	}
	if x.cur != t.ID {
		return
	}
	next := x.decide(t.ID)
	if next < 0 {
		x.cur = -2 // nobody
		return
	}
	x.cur = next
}

// Run executes one schedule: bodies are the harness threads, prefix the choices to
// replay (choice 0 afterwards). It returns when every thread has finished or the
// execution was aborted (deadlock, horizon, divergence).
//
//go:norace
func Run(names []string, bodies []func(), prefix []int, maxPoints int, unlockPoint bool) *Exec {
	return RunGuided(names, bodies, prefix, nil, maxPoints, unlockPoint)
}

// GuideStep: keep scheduling thread T until it has taken one step ("step"), is
// parked at a Yield ("yield") or has finished ("done").
type GuideStep struct {
	T     int
	Until string
}

// RunGuided is Run with a guide for the steps beyond the prefix.
//
//go:norace
func RunGuided(names []string, bodies []func(), prefix []int, guide []GuideStep, maxPoints int, unlockPoint bool) *Exec {
	epochCounter++
	x := &Exec{Prefix: prefix, Guide: guide, MaxPoints: maxPoints, UnlockPoint: unlockPoint, epoch: epochCounter, cur: -1}
	x.Points = make([]PointInfo, 0, 64)
	x.Trace = make([]int, 0, 192)
	for i, b := range bodies {
		x.Threads = append(x.Threads, &Thread{ID: i, Name: names[i], fn: b, kind: "start"})
	}
	X = x
	x.wg.Add(len(bodies))
	for _, t := range x.Threads[:len(bodies)] {
		go x.body(t)
	}
	first := x.decide(-1)
	if first >= 0 {
		x.cur = first
	}
	x.wg.Wait()
	X = nil
	return x
}

// Panics reports panics that escaped thread bodies (other than the abort signal).
//
//go:norace
func (x *Exec) Panics() []any {
	var out []any
	for _, t := range x.Threads {
		if t.panicked != nil {
			out = append(out, t.panicked)
		}
	}
	return out
}

package c03

import (
	"fmt"
	"net/http"
	"strings"
	"time"

	"github.com/vulcand/oxy/v2/internal/holsterv4/clock"
	"github.com/vulcand/oxy/v2/ratelimit"
	"github.com/vulcand/oxy/v2/zverif/lib"
)

// A source whose rates are CHANGED IN PLACE: the ExtractRates option hands out one long-lived *RateSet per tenant,
// the same object on every request; the operation Raise overrides its 1s rate (RateSet.Add on an existing period)
// from burst 2 to burst 4, Lower from 4 back to 2 (inside the extractor, i.e. under the limiter's lock). From
// that request on the CONFIGURED rate is the new one: a request within the new burst is admitted or given a
// delay that is honoured, an idle source regains the full new burst, a request above it is refused outright.

type isys struct {
	tl     *ratelimit.TokenLimiter
	set    *ratelimit.RateSet
	served int
	burst  int64 // the configured burst
	want   int64 // burst to be applied by the extractor at the next request (0: none pending)
}

func newIsys() *isys {
	clock.Freeze(base)
	s := &isys{burst: 2}
	s.set = ratelimit.NewRateSet()
	s.set.Add(time.Second, 2, 2)
	defaults := ratelimit.NewRateSet()
	defaults.Add(time.Hour, 1, 1)
	tl, err := ratelimit.New(http.HandlerFunc(func(w http.ResponseWriter, r *http.Request) {
		s.served++
		w.WriteHeader(200)
	}), extractor(), defaults, ratelimit.ExtractRates(ratelimit.RateExtractorFunc(func(*http.Request) (*ratelimit.RateSet, error) {
		if s.want != 0 {
			s.set.Add(time.Second, 2, s.want)
			s.burst, s.want = s.want, 0
		}
		return s.set, nil
	})))
	if err != nil {
		panic(err)
	}
	s.tl = tl
	return s
}

func inplaceModel(depth int) *lib.Model[*isys] {
	type od struct {
		kind   int // 0 request, 1 advance, 2 raise, 3 lower
		amount int64
		d      time.Duration
	}
	names := []string{"Req(1)", "Req(3)", "Req(4)", "RaiseBurstInPlace(4)", "LowerBurstInPlace(2)", "Advance(500ms)", "Advance(1s)", "Advance(2s)"}
	descs := []od{{0, 1, 0}, {0, 3, 0}, {0, 4, 0}, {2, 0, 0}, {3, 0, 0}, {1, 0, 500 * time.Millisecond}, {1, 0, time.Second}, {1, 0, 2 * time.Second}}
	m := &lib.Model[*isys]{Name: "limiter/rate-set-changed-in-place", Ops: names, MaxDepth: depth, Deadline: lib.Deadline}
	m.New = newIsys
	verdict := func(s *isys, amount int64, o outcome) string {
		switch {
		case amount > s.burst && (o.served || o.code < 400 || o.retryIn != ""):
			return fmt.Sprintf("/VIOLATION oversized-not-refused-outright: Req(%d) with a configured burst of %d: %s", amount, s.burst, o)
		case amount <= s.burst && !o.served && (o.code != 429 || o.retryIn == ""):
			return fmt.Sprintf("/VIOLATION rejection-without-delay: Req(%d) within the configured burst of %d was answered %s (want 200, or 429 with X-Retry-In)", amount, s.burst, o)
		}
		return ""
	}
	m.Apply = func(s *isys, op int) string {
		d := descs[op]
		switch d.kind {
		case 1:
			clock.Advance(d.d)
			return ""
		case 2:
			s.want = 4
			return "raise pending"
		case 3:
			s.want = 2
			return "lower pending"
		}
		o := doReq(s.tl, &s.served, "a", d.amount)
		return o.String() + verdict(s, d.amount, o)
	}
	m.Enabled = func(s *isys, op int) bool {
		eff := s.burst
		if s.want != 0 {
			eff = s.want
		}
		switch descs[op].kind {
		case 2:
			return eff == 2
		case 3:
			return eff == 4
		}
		return true
	}
	m.Key = func(s *isys) string {
		now := clock.Now().UTC()
		dm := lib.Dumper{Now: now, EpochSeconds: isEpoch}
		return dm.Dump(s.tl) + fmt.Sprintf("|%d|%d|%d", s.burst, s.want, now.UnixNano())
	}
	what := func(hist []int, obs []string, extra string) map[string]any {
		return map[string]any{"engine": "xstate", "part": "c03", "config": "in-place", "ops": m.OpNames(hist), "observations": obs, "continuation": extra}
	}
	m.OnTransition = func(s *isys, hist []int, obs []string, rep *lib.Report) {
		o := obs[len(obs)-1]
		if strings.HasPrefix(o, "200/") || strings.HasPrefix(o, "429/") || strings.HasPrefix(o, "500/") {
			rep.Count("requests")
			if s.burst == 4 {
				rep.Count("requests_after_the_rate_set_was_changed_in_place")
			}
		}
		if i := strings.Index(o, "/VIOLATION "); i >= 0 {
			kind := strings.SplitN(o[i+11:], ":", 2)[0]
			rep.Violate("C13:"+kind+":rate-set-changed-in-place", o[i+11:], what(hist, obs, ""))
		}
	}
	// continuation probes from every state (the state object is not used again after Check): the full configured
	// burst is asked for; a delay, where one is advertised, is waited out and the same request repeated; then the
	// source stays idle for burst x (period/average) and must regain the whole burst
	m.Check = func(s *isys, hist []int, obs []string, rep *lib.Report) {
		if s.want != 0 {
			return // the change reaches the limiter with the next request; probed from the states after it
		}
		o := doReq(s.tl, &s.served, "a", s.burst)
		if v := verdict(s, s.burst, o); v != "" {
			rep.Violate("C13:"+strings.SplitN(v[11:], ":", 2)[0]+":rate-set-changed-in-place", v[11:], what(hist, obs, fmt.Sprintf("Req(%d)", s.burst)))
			return
		}
		if !o.served {
			d, err := time.ParseDuration(o.retryIn)
			if err != nil {
				rep.Violate("C13:delay-unparsable:rate-set-changed-in-place", fmt.Sprintf("X-Retry-In %q", o.retryIn), what(hist, obs, fmt.Sprintf("Req(%d)", s.burst)))
				return
			}
			clock.Advance(d)
			if o2 := doReq(s.tl, &s.served, "a", s.burst); !o2.served {
				rep.Violate("C13:delay-not-honoured:rate-set-changed-in-place", fmt.Sprintf("Req(%d) (configured burst %d) was told to wait %v; after exactly that wait, with nothing in between, it was answered %s", s.burst, s.burst, d, o2),
					what(hist, obs, fmt.Sprintf("Req(%d), Advance(%v), Req(%d)", s.burst, d, s.burst)))
				return
			}
			rep.Count("advertised_delays_waited_out")
		}
		idle := time.Duration(s.burst) * time.Second / 2
		clock.Advance(idle)
		if o3 := doReq(s.tl, &s.served, "a", s.burst); !o3.served {
			rep.Violate("C13:idle-source-not-refilled:rate-set-changed-in-place", fmt.Sprintf("idle for %v = burst x (period/average) with a configured burst of %d: Req(%d) answered %s", idle, s.burst, s.burst, o3),
				what(hist, obs, fmt.Sprintf("..., Advance(%v), Req(%d)", idle, s.burst)))
			return
		}
		rep.Count("idle_refills_checked")
	}
	return m
}

func runInPlace(tier string, sh lib.Shard, rep *lib.Report) {
	depth := 5
	if tier == "thorough" {
		depth = 7
	}
	m := inplaceModel(depth)
	m.Shard, m.ShardLevel = sh, 2
	m.Run(rep)
	rep.Count("in_place_rate_change_searches")
}

func replayInPlace(rp map[string]any) (bool, string) {
	m := inplaceModel(0)
	hist, err := m.ParseOps(rp["ops"])
	if err != nil {
		return false, err.Error()
	}
	return m.ReplayHistory(hist, lib.NewReport("C13", "replay"))
}

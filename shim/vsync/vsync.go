//go:build verif

// Package vsync replaces "sync" in the oxy packages under test (import rewrite in
// the build overlay). Mutex and RWMutex wrap the real types — so mutual exclusion
// and the happens-before edges the race detector relies on are the real ones — and
// announce every acquisition to the scheduler as a scheduling point.
package vsync

import (
	"sync"

	"github.com/vulcand/oxy/v2/internal/verif/vrt"
)

type (
	WaitGroup = sync.WaitGroup
	Once      = sync.Once
	Pool      = sync.Pool
	Map       = sync.Map
	Locker    = sync.Locker
	Cond      = sync.Cond
)

func NewCond(l Locker) *Cond { return sync.NewCond(l) }

func OnceFunc(f func()) func() { return sync.OnceFunc(f) }

type Mutex struct {
	mu sync.Mutex
	st vrt.LockState
}

func (m *Mutex) Lock() {
	vrt.Acquire(&m.st, vrt.ModeExcl)
	m.mu.Lock()
}

func (m *Mutex) Unlock() {
	m.mu.Unlock()
	vrt.Release(&m.st, vrt.ModeExcl)
}

func (m *Mutex) TryLock() bool {
	vrt.PointNamed("trylock")
	return m.mu.TryLock()
}

type RWMutex struct {
	mu sync.RWMutex
	st vrt.LockState
}

func (m *RWMutex) Lock() {
	vrt.Acquire(&m.st, vrt.ModeExcl)
	m.mu.Lock()
}

func (m *RWMutex) Unlock() {
	m.mu.Unlock()
	vrt.Release(&m.st, vrt.ModeExcl)
}

func (m *RWMutex) RLock() {
	vrt.Acquire(&m.st, vrt.ModeShared)
	m.mu.RLock()
}

func (m *RWMutex) RUnlock() {
	m.mu.RUnlock()
	vrt.Release(&m.st, vrt.ModeShared)
}

func (m *RWMutex) RLocker() Locker { return (*rlocker)(m) }

type rlocker RWMutex

func (r *rlocker) Lock()   { (*RWMutex)(r).RLock() }
func (r *rlocker) Unlock() { (*RWMutex)(r).RUnlock() }

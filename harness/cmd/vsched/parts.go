//go:build verif

package main

import (
	"github.com/vulcand/oxy/v2/zverif/c04"
)

func init() {
	parts["c04"] = c04.Run
	finders["c04"] = c04.Find
}

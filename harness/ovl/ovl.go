//go:build verif

// Package ovl: OVERLAP scenarios for properties whose main check is sequential. Two or three calls are in
// flight on ONE middleware instance under the controlled scheduler (race build): every schedule up to the
// preemption bound is executed, the race detector must stay silent and the property's own oracle is
// evaluated at quiescence. Middlewares that look stateless per request (buffer, extractors, cookie
// encodings) are included on purpose: a pooled object, a lazily initialised field or a snapshot used
// after its lock was released only shows when calls overlap.
package ovl

import (
	"fmt"
	"io"
	"net/http"
	"net/http/httptest"
	"net/url"
	"sort"
	"strings"
	"sync"
	"time"

	"github.com/vulcand/oxy/v2/buffer"
	"github.com/vulcand/oxy/v2/internal/holsterv4/clock"
	"github.com/vulcand/oxy/v2/internal/verif/vrt"
	"github.com/vulcand/oxy/v2/memmetrics"
	"github.com/vulcand/oxy/v2/ratelimit"
	"github.com/vulcand/oxy/v2/roundrobin"
	"github.com/vulcand/oxy/v2/roundrobin/stickycookie"
	"github.com/vulcand/oxy/v2/utils"
	"github.com/vulcand/oxy/v2/zverif/lib"
	"github.com/vulcand/oxy/v2/zverif/sched"
)

var base = clock.Date(2012, 3, 4, 5, 6, 7, 0, clock.UTC)

func mustURL(s string) *url.URL {
	u, err := url.Parse(s)
	if err != nil {
		panic(err)
	}
	return u
}

func mk(name string, bound int, unlock bool, b func() *sched.Instance) *sched.Scenario {
	// bound and unlock points are part of the name: a recorded schedule only means something under the same points
	name = fmt.Sprintf("%s/bound=%d/unlock-points=%v", name, bound, unlock)
	return &sched.Scenario{Name: name, Bound: bound, UnlockPoint: unlock, New: func() *sched.Instance {
		clock.VerifInstall(base, nil)
		return b()
	}}
}

func failure(prop, key, f string, a ...any) vrt.Failure {
	return vrt.Failure{Key: prop + ":overlap:" + key, Detail: fmt.Sprintf(f, a...)}
}

// ---------------------------------------------------------------- C02: two administrators add the same new server

func c02UpsertUpsert() *sched.Instance {
	served := map[string]int{}
	var mu sync.Mutex
	rr, _ := roundrobin.New(http.HandlerFunc(func(w http.ResponseWriter, r *http.Request) {
		mu.Lock()
		served[r.URL.Host]++
		mu.Unlock()
		w.WriteHeader(200)
	}))
	a, b := mustURL("http://a"), mustURL("http://b")
	rr.UpsertServer(a)
	do := func() { rr.ServeHTTP(httptest.NewRecorder(), httptest.NewRequest("GET", "http://client/", nil)) }
	var e1, e2 error
	inst := &sched.Instance{Names: []string{"admin1", "admin2", "req"}}
	inst.Bodies = []func(){func() { e1 = rr.UpsertServer(b) }, func() { e2 = rr.UpsertServer(b, roundrobin.Weight(1)) }, func() { do() }}
	inst.Check = func(*vrt.Exec) []vrt.Failure {
		if e1 != nil || e2 != nil {
			return []vrt.Failure{failure("C02", "upsert-failed", "adding a server failed: %v / %v", e1, e2)}
		}
		n := 0
		for _, u := range rr.Servers() {
			if u.Host == "b" {
				n++
			}
		}
		if n != 1 {
			return []vrt.Failure{failure("C02", "member-listed-twice", "two overlapping UpsertServer(b): Servers() lists b %d times", n)}
		}
		if err := rr.RemoveServer(b); err != nil {
			return []vrt.Failure{failure("C02", "member-not-removable", "RemoveServer(b) after two overlapping adds: %v", err)}
		}
		if err := rr.RemoveServer(b); err == nil {
			return []vrt.Failure{failure("C02", "unknown-server-removed", "a second RemoveServer(b) succeeded: b was in the pool twice")}
		}
		mu.Lock()
		served = map[string]int{}
		mu.Unlock()
		for k := 0; k < 4; k++ {
			do()
		}
		if served["b"] != 0 {
			return []vrt.Failure{failure("C02", "removed-server-selected", "after RemoveServer(b), %d of 4 requests went to b", served["b"])}
		}
		return nil
	}
	return inst
}

// ---------------------------------------------------------------- C06 / C07: two clients through one Buffer, after a retried exchange

type bufResult struct {
	code int
	echo string
	body string
}

func bufferOverlap(prop string) *sched.Instance {
	var mu sync.Mutex
	attempts := map[string]int{}
	var wrong []string
	h := http.HandlerFunc(func(w http.ResponseWriter, r *http.Request) {
		id := r.Header.Get("Id")
		body, _ := io.ReadAll(r.Body)
		mu.Lock()
		attempts[id]++
		n := attempts[id]
		mu.Unlock()
		vrt.Yield()
		// what this attempt was handed, read AFTER other exchanges had a chance to run
		if string(body) != "body-of-"+id || r.Header.Get("Authorization") != "token-of-"+id || r.Header.Get("Id") != id || r.ContentLength != int64(len("body-of-"+id)) {
			mu.Lock()
			wrong = append(wrong, fmt.Sprintf("attempt %d of client %s was handed Id=%q Authorization=%q body=%q length=%d", n, id, r.Header.Get("Id"), r.Header.Get("Authorization"), body, r.ContentLength))
			mu.Unlock()
		}
		w.Header().Set("X-From", id)
		vrt.Yield()
		if n == 1 {
			w.WriteHeader(502)
			w.Write([]byte("failed-" + id))
			return
		}
		w.WriteHeader(201)
		w.Write([]byte("answer-for-" + id))
	})
	b, err := buffer.New(h, buffer.Retry("IsNetworkError() && Attempts() < 3"))
	if err != nil {
		panic(err)
	}
	do := func(id string) bufResult {
		rec := httptest.NewRecorder()
		req := httptest.NewRequest("POST", "http://client/"+id, strings.NewReader("body-of-"+id))
		req.Header.Set("Id", id)
		req.Header.Set("Authorization", "token-of-"+id)
		b.ServeHTTP(rec, req)
		return bufResult{rec.Code, strings.Join(rec.Header()["X-From"], ","), rec.Body.String()}
	}
	// an earlier exchange on the same instance that was retried once (sequential)
	pre := do("p")
	res := map[string]*bufResult{"a": {}, "b": {}}
	inst := &sched.Instance{Names: []string{"client-a", "client-b"}}
	inst.Bodies = []func(){func() { *res["a"] = do("a") }, func() { *res["b"] = do("b") }}
	inst.Check = func(*vrt.Exec) []vrt.Failure {
		var f []vrt.Failure
		if pre.code != 201 || pre.body != "answer-for-p" {
			f = append(f, failure(prop, "harness", "the sequential prelude exchange got %+v", pre))
		}
		if prop == "C06" {
			for _, w := range wrong {
				f = append(f, failure(prop, "attempt-handed-another-request", "%s", w))
			}
			if attempts["a"] != 2 || attempts["b"] != 2 {
				f = append(f, failure(prop, "attempts", "each request fails once and is retried once: attempts %v", attempts))
			}
		} else {
			for _, id := range []string{"a", "b"} {
				g := res[id]
				if g.code != 201 || g.echo != id || g.body != "answer-for-"+id {
					f = append(f, failure(prop, "client-got-another-response", "client %s received status %d, X-From %q, body %q (its own final attempt answered 201, X-From %s, \"answer-for-%s\")", id, g.code, g.echo, g.body, id, id))
				}
			}
		}
		return f
	}
	return inst
}

// ---------------------------------------------------------------- C15: limits while the instance's first exchanges overlap

func bufferLimitsOverlap() *sched.Instance {
	var mu sync.Mutex
	reached := map[string]int{}
	h := http.HandlerFunc(func(w http.ResponseWriter, r *http.Request) {
		id := r.Header.Get("Id")
		io.Copy(io.Discard, r.Body)
		mu.Lock()
		reached[id]++
		mu.Unlock()
		vrt.Yield()
		w.WriteHeader(200)
		if id == "big-response" {
			w.Write([]byte(strings.Repeat("R", 40)))
			return
		}
		w.Write([]byte("ok"))
	})
	b, err := buffer.New(h, buffer.MemRequestBodyBytes(4), buffer.MaxRequestBodyBytes(8), buffer.MemResponseBodyBytes(4), buffer.MaxResponseBodyBytes(16))
	if err != nil {
		panic(err)
	}
	type got struct {
		code int
		n    int
	}
	res := map[string]*got{"small": {}, "big-request": {}, "big-response": {}}
	do := func(id string, body string) {
		rec := httptest.NewRecorder()
		req := httptest.NewRequest("POST", "http://client/", strings.NewReader(body))
		req.Header.Set("Id", id)
		b.ServeHTTP(rec, req)
		*res[id] = got{rec.Code, rec.Body.Len()}
	}
	inst := &sched.Instance{Names: []string{"small", "big-request", "big-response"}}
	inst.Bodies = []func(){
		func() { do("small", "1234") },
		func() { do("big-request", strings.Repeat("Q", 20)) },
		func() { do("big-response", "12") },
	}
	inst.Check = func(*vrt.Exec) []vrt.Failure {
		var f []vrt.Failure
		if g := res["big-request"]; g.code != http.StatusRequestEntityTooLarge || reached["big-request"] != 0 {
			f = append(f, failure("C15", "oversized-request-not-refused", "20-byte request against a maximum of 8 while other exchanges were in flight: status %d, handler reached %d times", g.code, reached["big-request"]))
		}
		if g := res["big-response"]; g.code < 400 || g.n >= 40 {
			f = append(f, failure("C15", "oversized-response-delivered", "40-byte response against a maximum of 16 while other exchanges were in flight: client got status %d and %d bytes", g.code, g.n))
		}
		if g := res["small"]; g.code != 200 {
			f = append(f, failure("C15", "request-within-limit-refused", "4-byte request: status %d", g.code))
		}
		return f
	}
	return inst
}

// ---------------------------------------------------------------- C10: an adjustment overlaps an administration call

type scriptMeter struct {
	rating float64
	ready  bool
}

func (m *scriptMeter) Rating() float64           { return m.rating }
func (m *scriptMeter) Record(int, time.Duration) {}
func (m *scriptMeter) IsReady() bool             { return m.ready }

func rebalancerAdjustVsAdmin(remove bool) *sched.Instance {
	rr, _ := roundrobin.New(http.HandlerFunc(func(w http.ResponseWriter, r *http.Request) { w.WriteHeader(200) }))
	var meters []*scriptMeter
	rb, _ := roundrobin.NewRebalancer(rr, roundrobin.RebalancerBackoff(time.Second), roundrobin.RebalancerMeter(func() (roundrobin.Meter, error) {
		m := &scriptMeter{ready: true}
		meters = append(meters, m)
		return m, nil
	}))
	a, b, c := mustURL("http://a"), mustURL("http://b"), mustURL("http://c")
	rb.UpsertServer(a)
	rb.UpsertServer(b)
	rb.UpsertServer(c)
	meters[0].rating = 1 // a is failing: the next adjustment boosts b and c
	do := func() { rb.ServeHTTP(httptest.NewRecorder(), httptest.NewRequest("GET", "http://client/", nil)) }
	var adminErr error
	inst := &sched.Instance{Names: []string{"req", "admin"}}
	inst.Bodies = []func(){
		func() { clock.VerifAdvance(2 * time.Second); do() },
		func() {
			if remove {
				adminErr = rb.RemoveServer(c)
			} else {
				adminErr = rb.UpsertServer(b, roundrobin.Weight(3))
			}
		},
	}
	inst.Check = func(*vrt.Exec) []vrt.Failure {
		if adminErr != nil {
			return []vrt.Failure{failure("C10", "admin-call-failed", "%v", adminErr)}
		}
		if remove {
			for _, u := range rr.Servers() {
				if u.Host == "c" {
					return []vrt.Failure{failure("C10", "removed-server-back-in-balancer", "RemoveServer(c) overlapped an adjustment: the balancer still lists c (%v)", rr.Servers())}
				}
			}
			if err := rb.RemoveServer(c); err == nil {
				return []vrt.Failure{failure("C10", "removed-server-still-known", "a second RemoveServer(c) succeeded")}
			}
		}
		// ratings stop differing: within six adjustments the weights are the configured proportions again
		for _, m := range meters {
			m.rating = 0
		}
		for k := 0; k < 7; k++ {
			clock.VerifAdvance(2 * time.Second)
			do()
		}
		want := map[string]int{"a": 1, "b": 1, "c": 1}
		if remove {
			delete(want, "c")
		} else {
			want["b"] = 3
		}
		got := map[string]int{}
		for _, u := range rr.Servers() {
			w, _ := rr.ServerWeight(u)
			got[u.Host] = w
		}
		// proportional comparison
		for h1, w1 := range want {
			for h2, w2 := range want {
				if got[h1]*w2 != got[h2]*w1 {
					return []vrt.Failure{failure("C10", "configured-proportions-not-restored", "configured weights %v; after an adjustment overlapped the administration call and ratings equalised for seven back-off rounds the balancer holds %v", want, got)}
				}
			}
		}
		if len(got) != len(want) {
			return []vrt.Failure{failure("C10", "membership-differs", "balancer holds %v, configured %v", got, want)}
		}
		return nil
	}
	return inst
}

// ---------------------------------------------------------------- C11: two cookie-less clients are balanced and stuck at the same time

func stickyIssueOverlap(enc string) *sched.Instance {
	var cv stickycookie.CookieValue
	switch enc {
	case "aes":
		v, err := stickycookie.NewAESValue([]byte("95Bx9JkKX3xbd7z3"), 0)
		if err != nil {
			panic(err)
		}
		cv = v
	case "aes+ttl":
		v, err := stickycookie.NewAESValue([]byte("95Bx9JkKX3xbd7z3"), time.Hour)
		if err != nil {
			panic(err)
		}
		cv = v
	case "hash":
		cv = &stickycookie.HashValue{Salt: "s"}
	default:
		cv = &stickycookie.RawValue{}
	}
	var mu sync.Mutex
	var last string
	rr, _ := roundrobin.New(http.HandlerFunc(func(w http.ResponseWriter, r *http.Request) {
		mu.Lock()
		last = r.URL.Host
		mu.Unlock()
		w.Header().Set("X-Served-By", r.URL.Host)
		w.WriteHeader(200)
	}), roundrobin.EnableStickySession(roundrobin.NewStickySession("sid").SetCookieValue(cv)))
	rr.UpsertServer(mustURL("http://10.0.0.1:8080"))
	rr.UpsertServer(mustURL("http://10.0.0.22:80/some/longer/path"))
	type sess struct {
		host   string
		cookie *http.Cookie
	}
	var ss [2]sess
	first := func(i int) {
		rec := httptest.NewRecorder()
		rr.ServeHTTP(rec, httptest.NewRequest("GET", "http://client/", nil))
		ss[i].host = rec.Header().Get("X-Served-By")
		for _, c := range rec.Result().Cookies() {
			if c.Name == "sid" {
				ss[i].cookie = c
			}
		}
	}
	inst := &sched.Instance{Names: []string{"client-1", "client-2"}}
	inst.Bodies = []func(){func() { first(0) }, func() { first(1) }}
	inst.Check = func(*vrt.Exec) []vrt.Failure {
		_ = last
		for i, s := range ss {
			if s.cookie == nil {
				return []vrt.Failure{failure("C11", "no-cookie-issued", "client %d was served by %s but received no affinity cookie", i+1, s.host)}
			}
			for k := 0; k < 3; k++ {
				rec := httptest.NewRecorder()
				req := httptest.NewRequest("GET", "http://client/", nil)
				req.AddCookie(s.cookie)
				rr.ServeHTTP(rec, req)
				if got := rec.Header().Get("X-Served-By"); got != s.host {
					return []vrt.Failure{failure("C11", "cookie-names-another-server:"+enc, "client %d was served by %s and given cookie %.40q; replaying that cookie leads to %q (status %d)", i+1, s.host, s.cookie.Value, got, rec.Code)}
				}
			}
		}
		return nil
	}
	return inst
}

// ---------------------------------------------------------------- C13: two refused requests at the same time

func refusalsOverlap() *sched.Instance {
	rs := ratelimit.NewRateSet()
	rs.Add(time.Second, 10, 10)
	ex := utils.ExtractorFunc(func(r *http.Request) (string, int64, error) {
		var n int64
		fmt.Sscan(r.Header.Get("Amount"), &n)
		return r.Header.Get("Source"), n, nil
	})
	tl, err := ratelimit.New(http.HandlerFunc(func(w http.ResponseWriter, r *http.Request) { w.WriteHeader(200) }), ex, rs)
	if err != nil {
		panic(err)
	}
	do := func(src string, amount int) (int, string) {
		rec := httptest.NewRecorder()
		req := httptest.NewRequest("GET", "http://client/", nil)
		req.Header.Set("Source", src)
		req.Header.Set("Amount", fmt.Sprint(amount))
		tl.ServeHTTP(rec, req)
		return rec.Code, rec.Header().Get("X-Retry-In")
	}
	do("a", 10)
	do("b", 10) // both sources have spent their burst
	var codeA, codeB int
	var waitA, waitB string
	inst := &sched.Instance{Names: []string{"a-wants-10", "b-wants-1"}}
	inst.Bodies = []func(){func() { codeA, waitA = do("a", 10) }, func() { codeB, waitB = do("b", 1) }}
	inst.Check = func(*vrt.Exec) []vrt.Failure {
		if codeA != 429 || codeB != 429 {
			return []vrt.Failure{failure("C13", "harness", "both requests should be refused: %d %d", codeA, codeB)}
		}
		for _, x := range []struct {
			src    string
			amount int
			wait   string
		}{{"b", 1, waitB}, {"a", 10, waitA}} {
			d, err := time.ParseDuration(x.wait)
			if err != nil {
				return []vrt.Failure{failure("C13", "no-advertised-wait", "source %s was refused without a parsable X-Retry-In (%q)", x.src, x.wait)}
			}
			clock.VerifAdvance(d)
			if code, again := do(x.src, x.amount); code != 200 {
				return []vrt.Failure{failure("C13", "advertised-wait-insufficient", "source %s asked for %d, was refused and told to wait %v while another refusal was in flight; retried after exactly that wait it is refused again (status %d, now told %s)", x.src, x.amount, d, code, again)}
			}
		}
		return nil
	}
	return inst
}

// ---------------------------------------------------------------- C03: a request sits in the rate extractor while its source's entry expires

func extractorOverlapsExpiry() *sched.Instance {
	shared := ratelimit.NewRateSet()
	shared.Add(time.Second, 1, 2)
	ex := utils.ExtractorFunc(func(r *http.Request) (string, int64, error) { return "a", 1, nil })
	var mu sync.Mutex
	admittedAfter := 0
	advanced := false
	tl, err := ratelimit.New(http.HandlerFunc(func(w http.ResponseWriter, r *http.Request) {
		mu.Lock()
		if advanced {
			admittedAfter++
		}
		mu.Unlock()
		w.WriteHeader(200)
	}), ex, shared, ratelimit.ExtractRates(ratelimit.RateExtractorFunc(func(r *http.Request) (*ratelimit.RateSet, error) {
		vrt.Yield() // user code: a scheduling point inside the rate extractor
		return shared, nil
	})))
	if err != nil {
		panic(err)
	}
	do := func() { tl.ServeHTTP(httptest.NewRecorder(), httptest.NewRequest("GET", "http://client/", nil)) }
	do()
	do() // burst spent at t0; the source is remembered for 11s
	inst := &sched.Instance{Names: []string{"req-1", "clock+2-requests", "req-2"}}
	inst.Bodies = []func(){
		func() { do() },
		func() {
			vrt.Yield()
			clock.VerifAdvance(12 * time.Second) // the entry's lifetime (11s) runs out
			mu.Lock()
			advanced = true
			mu.Unlock()
			do()
			do()
		},
		func() { do(); do() },
	}
	inst.Check = func(*vrt.Exec) []vrt.Failure {
		// everything admitted after the advance was admitted at ONE instant: at most burst + 1
		if admittedAfter > 3 {
			return []vrt.Failure{failure("C03", "admission-bound-exceeded", "rate 1/s burst 2: %d requests of one source were admitted at one instant (bound burst+1 = 3) - a request that sat in the rate extractor while the source's entry expired", admittedAfter)}
		}
		return nil
	}
	return inst
}

// ---------------------------------------------------------------- C17: increments overlap a clock step

func counterIncOverlapsClock() *sched.Instance {
	c, err := memmetrics.NewCounter(10, time.Second)
	if err != nil {
		panic(err)
	}
	rc, _ := memmetrics.NewRatioCounter(10, time.Second)
	inst := &sched.Instance{Names: []string{"inc-1", "inc-2", "clock"}}
	inst.Bodies = []func(){
		func() { c.Inc(1); rc.IncA(1); c.Inc(1) },
		func() { c.Inc(1); rc.IncB(1); c.Inc(1) },
		func() {
			vrt.Yield()
			clock.VerifAdvance(time.Second)
			vrt.Yield()
			clock.VerifAdvance(1500 * time.Millisecond)
			c.Count()
		},
	}
	inst.Check = func(*vrt.Exec) []vrt.Failure {
		// all four increments are younger than (N-1) x r = 9s whatever the interleaving: none may be lost
		if n := c.Count(); n != 4 {
			return []vrt.Failure{failure("C17", "recent-lost", "4 increments within 2.5s on a 10 x 1s counter, overlapping two clock steps: Count() = %d", n)}
		}
		if r := rc.Ratio(); r != 0.5 {
			return []vrt.Failure{failure("C17", "ratio-recent-lost", "IncA(1) and IncB(1) within 2.5s on a 10 x 1s ratio counter: Ratio() = %v, want 0.5", r)}
		}
		return nil
	}
	return inst
}

// ---------------------------------------------------------------- C19: the first uses of a freshly built extractor overlap

func extractorFirstUses(variable string) *sched.Instance {
	ex, err := utils.NewExtractor(variable)
	if err != nil {
		panic(err)
	}
	type got struct {
		tok string
		n   int64
		err error
	}
	var g [3]got
	mkReq := func(i int) *http.Request {
		r := httptest.NewRequest("GET", "http://placeholder/", nil)
		r.RemoteAddr = fmt.Sprintf("10.0.0.%d:%d", i+1, 1000+i)
		r.Host = fmt.Sprintf("host-%d.example", i+1)
		r.Header.Set("X-Src", fmt.Sprintf("value-%d", i+1))
		return r
	}
	want := func(i int) string {
		switch {
		case variable == "client.ip":
			return fmt.Sprintf("10.0.0.%d", i+1)
		case variable == "request.host":
			return fmt.Sprintf("host-%d.example", i+1)
		}
		return fmt.Sprintf("value-%d", i+1)
	}
	inst := &sched.Instance{Names: []string{"req-1", "req-2", "req-3"}}
	for i := 0; i < 3; i++ {
		i := i
		inst.Bodies = append(inst.Bodies, func() {
			t, n, e := ex.Extract(mkReq(i))
			g[i] = got{t, n, e}
		})
	}
	inst.Check = func(*vrt.Exec) []vrt.Failure {
		for i, x := range g {
			if x.err != nil || x.n != 1 || x.tok != want(i) {
				return []vrt.Failure{failure("C19", "wrong-token:"+variable, "three requests overlap on a freshly built %q extractor: request %d got (%q, %d, %v), want (%q, 1, nil)", variable, i+1, x.tok, x.n, x.err, want(i))}
			}
		}
		return nil
	}
	return inst
}

// ---------------------------------------------------------------- registry

func Scenarios(prop, tier string) []*sched.Scenario {
	b := 2
	up := false
	if tier == "thorough" {
		b, up = 3, true
	}
	switch prop {
	case "C02":
		return []*sched.Scenario{mk("upsert-upsert-same-new-server", -1, true, c02UpsertUpsert)}
	case "C03":
		return []*sched.Scenario{mk("rate-extractor-overlaps-expiry", b, up, extractorOverlapsExpiry)}
	case "C06", "C07":
		return []*sched.Scenario{mk("buffer-two-clients-after-a-retried-exchange", b+1, up, func() *sched.Instance { return bufferOverlap(prop) })}
	case "C15":
		return []*sched.Scenario{mk("buffer-limits-first-exchanges-overlap", b, up, bufferLimitsOverlap)}
	case "C10":
		return []*sched.Scenario{
			mk("adjustment-overlaps-reweighting", -1, true, func() *sched.Instance { return rebalancerAdjustVsAdmin(false) }),
			mk("adjustment-overlaps-removal", -1, true, func() *sched.Instance { return rebalancerAdjustVsAdmin(true) }),
		}
	case "C11":
		var out []*sched.Scenario
		for _, enc := range []string{"aes", "aes+ttl", "hash", "raw"} {
			enc := enc
			out = append(out, mk("two-cookie-less-clients/"+enc, -1, true, func() *sched.Instance { return stickyIssueOverlap(enc) }))
		}
		return out
	case "C13":
		return []*sched.Scenario{mk("two-refusals-in-flight", -1, true, refusalsOverlap)}
	case "C17":
		return []*sched.Scenario{mk("increments-overlap-clock-steps", b+1, up, counterIncOverlapsClock)}
	case "C19":
		var out []*sched.Scenario
		for _, v := range []string{"request.header.X-Src", "client.ip", "request.host"} {
			v := v
			out = append(out, mk("first-uses-of-a-fresh-extractor/"+v, -1, true, func() *sched.Instance { return extractorFirstUses(v) }))
		}
		return out
	}
	return nil
}

func Run(tier string, sh lib.Shard, rep *lib.Report) {
	rep.Rule = "overlap scenarios: stateless DFS over all schedules within the stated preemption bound (unbounded where stated) of 2-3 calls in flight on one middleware instance, binary built with -race; scheduling points are the instance's own lock operations (and, for unbounded scenarios, unlocks) plus yields inside user code (handlers, extractors); the property's oracle is evaluated at quiescence"
	prop := rep.Property
	scs := Scenarios(prop, tier)
	if len(scs) == 0 {
		rep.DistrustF("no overlap scenario registered for %s", prop)
		return
	}
	bounds := map[string]any{}
	for _, sc := range scs {
		e := sched.NewExplorer(rep, sh, "ovl")
		st := e.Explore(sc)
		rep.Nontrivial += st.WithPreemption
		if !st.Complete {
			rep.Exhaustive = false
		}
		rep.Count("overlap_scenarios_explored")
		bounds[sc.Name] = fmt.Sprintf("preemption bound %d, unlock points %v", sc.Bound, sc.UnlockPoint)
	}
	keys := make([]string, 0, len(bounds))
	for k := range bounds {
		keys = append(keys, k)
	}
	sort.Strings(keys)
	rep.Bounds["overlap_scenarios"] = bounds
	rep.Require("overlap_scenarios_explored")
	if e := sched.NewExplorer(rep, sh, "ovl"); e.RaceLog == "" {
		rep.DistrustF("the overlap part must run in the -race build with VERIF_RACELOG set")
	}
}

func Find(prop, name string) *sched.Scenario {
	for _, tier := range []string{"quick", "thorough"} {
		for _, sc := range Scenarios(prop, tier) {
			if sc.Name == name {
				return sc
			}
		}
	}
	return nil
}

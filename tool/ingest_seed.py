#!/usr/bin/env python3
"""Seeded changes (produced by independent sub-agents that saw only a property's text and a
scratch worktree of /repo) live in /verif/seeded/<name>/{patch.diff, <demo>_test.go, meta.json}.

  tool/ingest_seed.py ingest <worktree> <name> [--prop Cnn]   copy from <worktree>/_seed, verify, remove the worktree
  tool/ingest_seed.py verify [<name-prefix> ...]               re-verify kept seeds (all by default)
  tool/ingest_seed.py recheck [<name-prefix> ...]              only re-run the quick check against each patched copy (after a harness change)

Verification happens in a scratch COPY of /repo (never /repo itself): (a) the patch applies,
(b) the pinned suite stays green with it, (c) the demonstration fails with it and (d) passes
without it; then the property's quick check runs against the patched copy. Everything that was
run and observed is recorded in meta.json.
"""
import glob, json, os, shutil, subprocess, sys, tempfile, time

VERIF = os.path.dirname(os.path.dirname(os.path.abspath(__file__)))
ENV = dict(os.environ, GOFLAGS="-mod=mod", GOPROXY="off", GOSUMDB="off", GOTOOLCHAIN="local")


def sh(cmd, cwd=None, timeout=1200):
    r = subprocess.run(["bash", "-c", cmd], cwd=cwd, env=ENV, capture_output=True, text=True, timeout=timeout)
    return r.returncode, (r.stdout + r.stderr)


def verify(name):
    out = os.path.join(VERIF, "seeded", name)
    res = json.load(open(os.path.join(out, "meta.json")))
    prop, demo_dir, demo_file = res["property"], res["demo_dir"], res["demo_file"]
    res["what_i_ran"] = {}
    w = res["what_i_ran"]
    scratch = tempfile.mkdtemp(prefix="vseed-")
    try:
        dst = os.path.join(scratch, "repo")
        shutil.copytree("/repo", dst, ignore=shutil.ignore_patterns(".git"))
        race = "-race " if res.get("demo_needs_race") else ""
        demo_cmd = "timeout 600 go test -vet=off -count=1 %s-run TestSeedDemo ./%s/" % (race, demo_dir)
        shutil.copy(os.path.join(out, demo_file), os.path.join(dst, demo_dir, demo_file))
        rc, o = sh(demo_cmd, cwd=dst)
        w["demo_without_change"] = dict(cmd=demo_cmd, passed=(rc == 0), tail=o[-300:])
        rc, o = sh("patch -p1 -s < %s" % os.path.join(out, "patch.diff"), cwd=dst)
        w["patch_applies"] = rc == 0
        rc, o = sh(demo_cmd, cwd=dst)
        w["demo_with_change"] = dict(failed=(rc != 0), tail=o[-700:])
        os.remove(os.path.join(dst, demo_dir, demo_file))
        rc, o = sh("%s %s" % (os.path.join(VERIF, "tool", "runsuite.sh"), dst))
        w["pinned_suite_with_change"] = o.strip().splitlines()[0] if o.strip() else "no output"
        suite_ok = rc == 0
        t0 = time.time()
        env = dict(os.environ, VERIF_REPO=dst, VERIF_NO_EVIDENCE="1")
        r = subprocess.run([os.path.join(VERIF, "vcheck"), prop, "quick"], env=env, capture_output=True, text=True)
        viol = [l for l in r.stdout.splitlines() if l.startswith("VIOLATION")]
        w["check"] = dict(cmd="VERIF_REPO=<patched copy of /repo> ./vcheck %s quick" % prop, rc=r.returncode, detected=(r.returncode == 1 and bool(viol)),
                          violations=[v[:260] for v in viol[:4]], wall_s=round(time.time() - t0, 1), tail=r.stdout[-300:] if not viol else "")
        res["confirmed"] = bool(w["patch_applies"] and suite_ok and w["demo_with_change"]["failed"] and w["demo_without_change"]["passed"])
        res["detected_by_quick_check"] = w["check"]["detected"]
    finally:
        shutil.rmtree(scratch, ignore_errors=True)
    json.dump(res, open(os.path.join(out, "meta.json"), "w"), indent=1)
    print("%-38s confirmed=%-5s %s demo(with)=%s demo(without)=%s | %s %s" % (
        name, res["confirmed"], w["pinned_suite_with_change"], "FAIL" if w["demo_with_change"]["failed"] else "pass",
        "pass" if w["demo_without_change"]["passed"] else "FAIL", prop,
        ("DETECTED " + w["check"]["violations"][0][:140]) if res["detected_by_quick_check"] else "MISSED rc=%d" % w["check"]["rc"]), flush=True)
    return res


def recheck(name):
    """Only re-run the property's quick check against a patched copy of /repo (after a harness change)."""
    out = os.path.join(VERIF, "seeded", name)
    res = json.load(open(os.path.join(out, "meta.json")))
    prop = res["property"]
    scratch = tempfile.mkdtemp(prefix="vseed-")
    try:
        dst = os.path.join(scratch, "repo")
        shutil.copytree("/repo", dst, ignore=shutil.ignore_patterns(".git"))
        rc, o = sh("patch -p1 -s < %s" % os.path.join(out, "patch.diff"), cwd=dst)
        if rc != 0:
            print("%-44s PATCH DOES NOT APPLY" % name, flush=True)
            return
        t0 = time.time()
        env = dict(os.environ, VERIF_REPO=dst, VERIF_NO_EVIDENCE="1")
        r = subprocess.run([os.path.join(VERIF, "vcheck"), prop, "quick"], env=env, capture_output=True, text=True)
        viol = [l for l in r.stdout.splitlines() if l.startswith("VIOLATION")]
        det = r.returncode == 1 and bool(viol)
        res.setdefault("what_i_ran", {})["check"] = dict(cmd="VERIF_REPO=<patched copy of /repo> ./vcheck %s quick" % prop, rc=r.returncode, detected=det,
                                                          violations=[v[:260] for v in viol[:4]], wall_s=round(time.time() - t0, 1), tail=r.stdout[-300:] if not viol else "")
        res["detected_by_quick_check"] = det
        json.dump(res, open(os.path.join(out, "meta.json"), "w"), indent=1)
        print("%-44s %s %s" % (name, prop, ("DETECTED " + viol[0][:150]) if det else "MISSED rc=%d" % r.returncode), flush=True)
    finally:
        shutil.rmtree(scratch, ignore_errors=True)


def ingest(wt, name, prop=None):
    seed = os.path.join(wt, "_seed")
    meta = json.load(open(os.path.join(seed, "meta.json")))
    demos = [p for p in glob.glob(os.path.join(wt, "**", "zz_seed_demo*_test.go"), recursive=True) if "/_seed/" not in p]
    if not demos:
        print("no demo test found in", wt)
        return
    demo_rel = os.path.relpath(demos[0], wt)
    out = os.path.join(VERIF, "seeded", name)
    os.makedirs(out, exist_ok=True)
    shutil.copy(os.path.join(seed, "patch.diff"), os.path.join(out, "patch.diff"))
    shutil.copy(demos[0], os.path.join(out, os.path.basename(demos[0])))
    res = dict(property=prop or meta.get("property"), name=name, demo_file=os.path.basename(demos[0]), demo_dir=os.path.dirname(demo_rel),
               demo_needs_race="-race" in json.dumps(meta.get("demo", "")),
               what_it_breaks=meta.get("what_it_breaks"), needs_to_manifest=meta.get("needs_to_manifest"),
               produced_by="independent sub-agent given only the property text and a scratch worktree of /repo")
    json.dump(res, open(os.path.join(out, "meta.json"), "w"), indent=1)
    verify(name)
    subprocess.run(["git", "-C", "/repo", "worktree", "remove", "--force", wt], capture_output=True)


if __name__ == "__main__":
    if sys.argv[1] == "ingest":
        prop = sys.argv[sys.argv.index("--prop") + 1] if "--prop" in sys.argv else None
        ingest(sys.argv[2], sys.argv[3], prop)
    elif sys.argv[1] == "recheck":
        pats = sys.argv[2:] or [""]
        for d in sorted(os.listdir(os.path.join(VERIF, "seeded"))):
            if any(d.startswith(p) for p in pats):
                recheck(d)
    else:
        pats = sys.argv[2:] or [""]
        for d in sorted(os.listdir(os.path.join(VERIF, "seeded"))):
            if any(d.startswith(p) for p in pats):
                verify(d)

//go:build verif && !holster_test_mode

package clock

import "time"

// verifClock is a lock-free clock provider for the scheduler engine: the frozen
// clock's own mutex would add happens-before edges between all threads that read
// the time and blind the race detector. Only one harness thread runs at a time.
type verifClock struct {
	now  time.Time
	hook func()
}

//go:norace
func (c *verifClock) Now() time.Time {
	if c.hook != nil {
		c.hook()
	}
	return c.now
}
func (c *verifClock) Sleep(d time.Duration)                  { panic("verif clock: Sleep") }
func (c *verifClock) After(d time.Duration) <-chan time.Time { panic("verif clock: After") }
func (c *verifClock) NewTimer(d time.Duration) Timer         { panic("verif clock: NewTimer") }
func (c *verifClock) AfterFunc(d time.Duration, f func()) Timer {
	panic("verif clock: AfterFunc")
}
func (c *verifClock) NewTicker(d time.Duration) Ticker             { panic("verif clock: NewTicker") }
func (c *verifClock) Tick(d time.Duration) <-chan time.Time        { panic("verif clock: Tick") }
func (c *verifClock) Wait4Scheduled(n int, t time.Duration) bool { panic("verif clock: Wait4Scheduled") }

var vclock *verifClock

// VerifInstall makes the lock-free clock the provider, frozen at now. hook (may be
// nil) runs before every clock read (used to make clock reads scheduling points).
//
//go:norace
func VerifInstall(now time.Time, hook func()) {
	vclock = &verifClock{now: now, hook: hook}
	provider = vclock
}

//go:norace
func VerifAdvance(d time.Duration) { vclock.now = vclock.now.Add(d) }

//go:norace
func VerifUninstall() { provider = realtime }

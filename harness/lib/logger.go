package lib

import "fmt"

// FormatLogger is a utils.Logger that really formats its arguments (so String()
// methods of the middlewares are exercised) and throws the text away. It keeps no
// state, so it can be shared by concurrent harness threads.
type FormatLogger struct{}

func (FormatLogger) Debug(msg string, a ...any) { _ = fmt.Sprintf(msg, a...) }
func (FormatLogger) Info(msg string, a ...any)  { _ = fmt.Sprintf(msg, a...) }
func (FormatLogger) Warn(msg string, a ...any)  { _ = fmt.Sprintf(msg, a...) }
func (FormatLogger) Error(msg string, a ...any) { _ = fmt.Sprintf(msg, a...) }

// Package c17: rolling-window counter bounds (explicit-state search on the real
// memmetrics.RollingCounter / RatioCounter under a frozen clock).
package c17

import (
	"fmt"
	"math"
	"strings"
	"time"

	"github.com/vulcand/oxy/v2/internal/holsterv4/clock"
	"github.com/vulcand/oxy/v2/memmetrics"
	"github.com/vulcand/oxy/v2/zverif/lib"
)

type inc struct {
	at time.Time
	v  int
}

type refCounter struct{ incs []inc }

func (r *refCounter) add(now time.Time, v int) { r.incs = append(r.incs, inc{now, v}) }

// bounds: lower = everything strictly newer than now-(N-1)r must be counted;
// upper = nothing older than now-N*r may be counted (weakest reading of both).
func (r *refCounter) bounds(now time.Time, n int, res time.Duration) (lo, hi int64) {
	loCut := now.Add(-time.Duration(n-1) * res)
	hiCut := now.Add(-time.Duration(n) * res)
	for _, i := range r.incs {
		if i.at.After(loCut) {
			lo += int64(i.v)
		}
		if !i.at.Before(hiCut) {
			hi += int64(i.v)
		}
	}
	return
}

// prune drops increments that can never matter again (older than now-N*r).
func (r *refCounter) prune(now time.Time, n int, res time.Duration) {
	hiCut := now.Add(-time.Duration(n) * res)
	k := 0
	for _, i := range r.incs {
		if !i.at.Before(hiCut) {
			r.incs[k] = i
			k++
		}
	}
	r.incs = r.incs[:k]
}

func (r *refCounter) key(now time.Time) string {
	var sb strings.Builder
	for _, i := range r.incs {
		fmt.Fprintf(&sb, "%d@%d;", i.v, now.Sub(i.at))
	}
	return sb.String()
}

type config struct {
	n    int
	res  time.Duration
	base time.Time
	name string
}

type sys struct {
	cfg  config
	c    *memmetrics.RollingCounter
	ref  refCounter
	// after Clone the ORIGINAL lives on beside the copy (twin): two counters from then on, each with its own events
	twin    *memmetrics.RollingCounter
	twinRef refCounter
	// a second, long-lived counter of ANOTHER shape (more buckets: a longer window) that is appended to the first
	other *memmetrics.RollingCounter
	rc   *memmetrics.RatioCounter
	a, b refCounter
}

func resClass(res time.Duration) string {
	switch {
	case res == time.Second:
		return "r=1s"
	case res%time.Second == 0:
		return "r=whole>1s"
	default:
		return "r=fractional"
	}
}

func advances(n int, res time.Duration) []time.Duration {
	return []time.Duration{
		res / 3, res / 2, res, 3 * res / 2,
		time.Duration(n-1) * res, time.Duration(n) * res, time.Duration(n+1) * res,
		2*time.Duration(n)*res + res/2,
	}
}

func configs(tier string) []config {
	ns := []int{1, 2, 3, 5, 10, 16} // 16: more buckets than the package's default of 10
	rs := []time.Duration{time.Second, 1500 * time.Millisecond, 2 * time.Second, 2500 * time.Millisecond,
		3 * time.Second, 7 * time.Second, 10 * time.Second, 60 * time.Second}
	t0 := clock.Date(2012, 3, 4, 5, 6, 7, 0, clock.UTC)
	var out []config
	for _, n := range ns {
		for _, r := range rs {
			// clock phases inside a slot: as in the tests, slightly off, deep inside a slot, slot-aligned
			bases := []time.Time{t0, t0.Add(300 * time.Millisecond), t0.Add(r * 65 / 100), t0.Truncate(time.Duration(n) * r)}
			for bi, b := range bases {
				out = append(out, config{n, r, b, fmt.Sprintf("N=%d,r=%v,base#%d", n, r, bi)})
			}
		}
	}
	return out
}

func counterModel(cfg config, depth int, rep *lib.Report) *lib.Model[*sys] {
	return counterModelW(cfg, depth, rep, false)
}

// withOther: the alphabet is Inc / Count / the two operations on the longer-window counter / the advances (Clone, Reset
// and the fresh-counter Append belong to the main model).
func counterModelW(cfg config, depth int, rep *lib.Report, withOther bool) *lib.Model[*sys] {
	adv := advances(cfg.n, cfg.res)
	ops := []string{"Inc(1)", "Count", "Append(other=2)", "Clone", "Reset", "Original.Inc(1)", "LongerWindowCounter.Inc(2)", "Append(LongerWindowCounter)"}
	nOps := len(ops)
	for _, d := range adv {
		ops = append(ops, fmt.Sprintf("Advance(%v)", d))
	}
	m := &lib.Model[*sys]{Name: "counter/" + cfg.name, Ops: ops, MaxDepth: depth, Deadline: lib.Deadline}
	m.New = func() *sys {
		clock.Freeze(cfg.base)
		c, err := memmetrics.NewCounter(cfg.n, cfg.res)
		if err != nil {
			panic(err)
		}
		o, err := memmetrics.NewCounter(2*cfg.n+2, cfg.res)
		if err != nil {
			panic(err)
		}
		return &sys{cfg: cfg, c: c, other: o}
	}
	m.Apply = func(s *sys, op int) string {
		now := clock.Now().UTC()
		switch op {
		case 6:
			s.other.Inc(2)
			return ""
		case 7:
			// Append(o) is an increment of o.Count() made now - whatever o's own shape and however long o has been idle
			k := s.other.Count()
			if err := s.c.Append(s.other); err != nil {
				return "append error: " + err.Error()
			}
			s.ref.add(now, int(k))
			return fmt.Sprintf("appended %d", k)
		case 0:
			s.c.Inc(1)
			s.ref.add(now, 1)
			return ""
		case 1:
			return fmt.Sprint(s.c.Count())
		case 2:
			// another counter of the same shape that has just counted 2 is appended: 2 more events at this instant
			o, _ := memmetrics.NewCounter(cfg.n, cfg.res)
			o.Inc(2)
			if err := s.c.Append(o); err != nil {
				return "append error: " + err.Error()
			}
			s.ref.add(now, 2)
			return ""
		case 3:
			// the copy must count exactly like the original from here on - and the original goes on counting its own events
			s.twin, s.twinRef = s.c, refCounter{incs: append([]inc(nil), s.ref.incs...)}
			s.c = s.c.Clone()
			return ""
		case 5:
			s.twin.Inc(1)
			s.twinRef.add(now, 1)
			return ""
		case 4:
			s.c.Reset()
			s.ref.incs = nil
			return ""
		default:
			clock.Advance(adv[op-nOps])
			s.ref.prune(clock.Now().UTC(), cfg.n, cfg.res)
			s.twinRef.prune(clock.Now().UTC(), cfg.n, cfg.res)
			return ""
		}
	}
	m.Enabled = func(s *sys, op int) bool {
		if withOther {
			return op < 2 || op > 5
		}
		return op < 5 || op == 5 && s.twin != nil || op > 7
	}
	if withOther {
		m.Name += "/with-a-longer-window-counter-appended"
	}
	m.Key = func(s *sys) string {
		now := clock.Now().UTC()
		d := lib.Dumper{Now: now}
		k := d.Dump(s.c) + "|" + fmt.Sprint(now.UnixNano()) + "|" + s.ref.key(now) + "|other:" + d.Dump(s.other)
		if s.twin != nil {
			k += "|twin:" + d.Dump(s.twin) + "|" + s.twinRef.key(now)
		}
		return k
	}
	m.Check = func(s *sys, hist []int, obs []string, rep *lib.Report) {
		now := clock.Now().UTC()
		lo, hi := s.ref.bounds(now, cfg.n, cfg.res)
		got := s.c.Count() // a read in every state (it mutates, but only after the key was taken)
		if lo > 0 {
			rep.Count("states_with_recent_increments")
		}
		if hi > lo {
			rep.Count("states_with_boundary_latitude")
		}
		if len(s.ref.incs) == 0 && len(hist) > 1 {
			rep.Count("states_after_everything_aged_out")
		}
		rep.Outcome(fmt.Sprintf("count=%d", got))
		if s.twin != nil {
			rep.Count("states_with_a_clone_and_its_original_alive")
			tlo, thi := s.twinRef.bounds(now, cfg.n, cfg.res)
			if tg := s.twin.Count(); tg < tlo || tg > thi {
				kind := "stale-counted"
				if tg < tlo {
					kind = "recent-lost"
				}
				rep.Violate(fmt.Sprintf("C17:counter:%s:original-beside-its-clone:%s", kind, resClass(cfg.res)),
					fmt.Sprintf("the original of a cloned counter: Count()=%d outside [%d,%d] (N=%d r=%v)", tg, tlo, thi, cfg.n, cfg.res),
					map[string]any{"engine": "xstate", "part": "c17", "model": "counter", "buckets": cfg.n, "resolution_ns": int64(cfg.res),
						"base_unix_ns": cfg.base.UnixNano(), "ops": m.OpNames(hist), "observed": tg, "expected_lo": tlo, "expected_hi": thi})
				return
			}
			// the read of the original just made must not have disturbed the copy: read it (again) afterwards
			got = s.c.Count()
		}
		if got < lo || got > hi {
			kind := "stale-counted"
			if got < lo {
				kind = "recent-lost"
			}
			rep.Violate(fmt.Sprintf("C17:counter:%s:%s", kind, resClass(cfg.res)),
				fmt.Sprintf("Count()=%d outside [%d,%d] (N=%d r=%v)", got, lo, hi, cfg.n, cfg.res),
				map[string]any{"engine": "xstate", "part": "c17", "model": "counter", "buckets": cfg.n, "resolution_ns": int64(cfg.res),
					"base_unix_ns": cfg.base.UnixNano(), "ops": m.OpNames(hist), "observed": got, "expected_lo": lo, "expected_hi": hi})
		}
	}
	return m
}

func ratioModel(cfg config, depth int, rep *lib.Report) *lib.Model[*sys] {
	adv := advances(cfg.n, cfg.res)
	adv = []time.Duration{adv[0], adv[1], adv[2], adv[4], adv[5], adv[7]}
	ops := []string{"IncA(1)", "IncB(1)", "Ratio", "Reset"}
	for _, d := range adv {
		ops = append(ops, fmt.Sprintf("Advance(%v)", d))
	}
	m := &lib.Model[*sys]{Name: "ratio/" + cfg.name, Ops: ops, MaxDepth: depth, Deadline: lib.Deadline}
	m.New = func() *sys {
		clock.Freeze(cfg.base)
		rc, err := memmetrics.NewRatioCounter(cfg.n, cfg.res)
		if err != nil {
			panic(err)
		}
		return &sys{cfg: cfg, rc: rc}
	}
	m.Apply = func(s *sys, op int) string {
		now := clock.Now().UTC()
		switch op {
		case 0:
			s.rc.IncA(1)
			s.a.add(now, 1)
		case 1:
			s.rc.IncB(1)
			s.b.add(now, 1)
		case 2:
			return fmt.Sprint(s.rc.Ratio())
		case 3:
			s.rc.Reset()
			s.a.incs, s.b.incs = nil, nil
		default:
			clock.Advance(adv[op-4])
			n2 := clock.Now().UTC()
			s.a.prune(n2, cfg.n, cfg.res)
			s.b.prune(n2, cfg.n, cfg.res)
		}
		return ""
	}
	m.Key = func(s *sys) string {
		now := clock.Now().UTC()
		d := lib.Dumper{Now: now}
		return d.Dump(s.rc) + "|" + fmt.Sprint(now.UnixNano()) + "|" + s.a.key(now) + "|" + s.b.key(now)
	}
	m.Check = func(s *sys, hist []int, obs []string, rep *lib.Report) {
		now := clock.Now().UTC()
		alo, ahi := s.a.bounds(now, cfg.n, cfg.res)
		blo, bhi := s.b.bounds(now, cfg.n, cfg.res)
		got := s.rc.Ratio()
		min, max := 0.0, 0.0
		if alo > 0 {
			min = float64(alo) / float64(alo+bhi)
		}
		if ahi > 0 {
			max = float64(ahi) / float64(ahi+blo)
		}
		if ahi+bhi == 0 {
			rep.Count("ratio_states_empty_window")
		} else {
			rep.Count("ratio_states_nonempty_window")
		}
		rep.Outcome(fmt.Sprintf("ratio=%.3f", got))
		const eps = 1e-12
		if math.IsNaN(got) || got < min-eps || got > max+eps {
			rep.Violate(fmt.Sprintf("C17:ratio:out-of-bounds:%s", resClass(cfg.res)),
				fmt.Sprintf("Ratio()=%v outside [%v,%v] (N=%d r=%v)", got, min, max, cfg.n, cfg.res),
				map[string]any{"engine": "xstate", "part": "c17", "model": "ratio", "buckets": cfg.n, "resolution_ns": int64(cfg.res),
					"base_unix_ns": cfg.base.UnixNano(), "ops": m.OpNames(hist), "observed": got, "expected_lo": min, "expected_hi": max})
		}
	}
	return m
}

// Run explores every configuration assigned to this shard.
func Run(tier string, sh lib.Shard, rep *lib.Report) {
	depth, rdepth, pdepth := 5, 4, 4
	if tier == "thorough" {
		depth, rdepth, pdepth = 7, 6, 6
	}
	rep.Bounds["depth_beyond_prepared_state(window filled once)"] = pdepth
	rep.Bounds["counter_history_depth"] = depth
	rep.Bounds["ratio_history_depth"] = rdepth
	rep.Bounds["alphabet_counter"] = "Inc(1) Count Append(other counter holding 2) Clone(the original lives on beside the copy) Original.Inc(1) Reset Advance{r/3,r/2,r,3r/2,(N-1)r,Nr,(N+1)r,2Nr+r/2}; ratio: IncA IncB Ratio Reset Advance{...}"
	rep.Bounds["configurations"] = "N in {1,2,3,5,10,16} x r in {1s,1.5s,2s,2.5s,3s,7s,10s,60s} x 4 clock phases"
	rep.Rule = "breadth-first search over all operation histories up to the depth bound on the real counter; state key = reflective dump of the counter + absolute instant + reference increments still inside N*r (exact key: merges only identical futures); a state is non-trivial when the reference window holds at least one increment"
	rep.Assume("A2: one API call observes one instant of the frozen clock")
	rep.Require("states_with_recent_increments", "searches_with_a_longer_window_counter_appended", "states_with_a_clone_and_its_original_alive", "states_with_boundary_latitude", "states_after_everything_aged_out", "ratio_states_nonempty_window", "ratio_states_empty_window", "prepared_state_searches")
	for i, cfg := range configs(tier) {
		if !sh.Mine(i) {
			continue
		}
		m := counterModel(cfg, depth, rep)
		r := m.Run(rep)
		rep.Sample(3, map[string]any{"model": m.Name, "result": r.Describe()})
		mo := counterModelW(cfg, depth-1, rep, true)
		mo.Run(rep)
		rep.Count("searches_with_a_longer_window_counter_appended")
		m2 := ratioModel(cfg, rdepth, rep)
		r2 := m2.Run(rep)
		rep.Sample(3, map[string]any{"model": m2.Name, "result": r2.Describe()})
		// start from a non-initial state too: the window has been filled once (an increment in each of N
		// consecutive slots, 2N operations from the initial state), then every history of pdepth more operations
		if cfg.n > 1 {
			find := func(m *lib.Model[*sys], name string) int {
				for i, n := range m.Ops {
					if n == name {
						return i
					}
				}
				panic("no op " + name)
			}
			m3 := counterModel(cfg, pdepth, rep)
			m3.Name += "/from-filled-window"
			var root []int
			for k := 0; k < cfg.n; k++ {
				root = append(root, find(m3, "Inc(1)"), find(m3, fmt.Sprintf("Advance(%v)", cfg.res)))
			}
			m3.Roots = [][]int{root}
			r3 := m3.Run(rep)
			rep.Sample(3, map[string]any{"model": m3.Name, "result": r3.Describe()})
			m4 := ratioModel(cfg, pdepth-1, rep)
			m4.Name += "/from-filled-window"
			root = nil
			for k := 0; k < cfg.n; k++ {
				root = append(root, find(m4, "IncA(1)"), find(m4, fmt.Sprintf("Advance(%v)", cfg.res)))
			}
			m4.Roots = [][]int{root}
			m4.Run(rep)
			rep.Count("prepared_state_searches")
		}
		rep.Count("configurations_explored")
	}
	rep.Nontrivial = rep.Counters["states_with_recent_increments"] + rep.Counters["ratio_states_nonempty_window"]
}

// Replay re-executes one recorded history without the search engine.
func Replay(rp map[string]any) (bool, string) {
	cfg := config{n: int(rp["buckets"].(float64)), res: time.Duration(int64(rp["resolution_ns"].(float64))),
		base: time.Unix(0, int64(rp["base_unix_ns"].(float64))).UTC(), name: "replay"}
	rep := lib.NewReport("C17", "replay")
	var m *lib.Model[*sys]
	if rp["model"] == "ratio" {
		m = ratioModel(cfg, 0, rep)
	} else {
		m = counterModel(cfg, 0, rep)
	}
	hist, err := m.ParseOps(rp["ops"])
	if err != nil {
		return false, err.Error()
	}
	return m.ReplayHistory(hist, rep)
}

// Package c11: sticky sessions. Bounded-exhaustive enumeration of server URLs x
// cookie encodings x cookie mutations x pool-change sequences on the real
// RoundRobin / Rebalancer; the cookie makes the real round trip Set-Cookie ->
// http.Response.Cookies() -> Request.AddCookie.
package c11

import (
	"encoding/base64"
	"fmt"
	"github.com/vulcand/oxy/v2/zverif/fwd"
	"math"
	"net/http"
	"net/http/httptest"
	"net/url"
	"strings"
	"time"

	"github.com/vulcand/oxy/v2/internal/holsterv4/clock"
	"github.com/vulcand/oxy/v2/roundrobin"
	"github.com/vulcand/oxy/v2/roundrobin/stickycookie"
	"github.com/vulcand/oxy/v2/zverif/lib"
)

const cookieName = "aff"

var base = clock.Date(2012, 3, 4, 5, 6, 7, 0, clock.UTC)

type encoding struct {
	name string
	mk   func() stickycookie.CookieValue
	auth bool          // authenticated encoding: any mutation must be rejected
	ttl  time.Duration // >0: cookies expire
}

func aes(key string, ttl time.Duration) func() stickycookie.CookieValue {
	return func() stickycookie.CookieValue {
		v, err := stickycookie.NewAESValue([]byte(key), ttl)
		if err != nil {
			panic(err)
		}
		return v
	}
}

const key16, key16b, key32 = "95Bx9JkKX3xbd7z3", "0000000000000000", "95Bx9JkKX3xbd7z395Bx9JkKX3xbd7z3"

func baseEncodings() []encoding {
	return []encoding{
		{"raw", func() stickycookie.CookieValue { return &stickycookie.RawValue{} }, false, 0},
		{"hash", func() stickycookie.CookieValue { return &stickycookie.HashValue{} }, false, 0},
		{"hash+salt", func() stickycookie.CookieValue { return &stickycookie.HashValue{Salt: "s"} }, false, 0},
		{"aes16", aes(key16, 0), true, 0},
		{"aes32", aes(key32, 0), true, 0},
		{"aes16+ttl5s", aes(key16, 5*time.Second), true, 5 * time.Second},
		// lifetimes of unusual magnitude: a quarter of a millennium, and the "never" idiom (largest duration)
		{"aes16+ttl250y", aes(key16, 250*365*24*time.Hour), true, 250 * 365 * 24 * time.Hour},
		{"aes32+ttlmax", aes(key32, time.Duration(math.MaxInt64)), true, time.Duration(math.MaxInt64)},
	}
}

func encodings() []encoding {
	bs := baseEncodings()
	out := append([]encoding{}, bs...)
	four := []encoding{bs[0], bs[2], bs[3], bs[5]}
	for _, from := range four {
		for _, to := range four {
			from, to := from, to
			out = append(out, encoding{"fallback(" + from.name + "->" + to.name + ")", func() stickycookie.CookieValue {
				v, err := stickycookie.NewFallbackValue(from.mk(), to.mk())
				if err != nil {
					panic(err)
				}
				return v
			}, from.auth && to.auth, to.ttl})
		}
	}
	return out
}

func serverURLs(tier string) []string {
	schemes := []string{"http", "https"}
	users := []string{"", "u@", "u:p@", "John%20Doe@"}
	hosts := []string{"a", "a:8080", "10.0.0.1", "[::1]:80"}
	// (with characters that cookies or the cookie payload formats treat specially: ';' and '|')
	paths := []string{"", "/", "/x", "/x%20y", "/x%2Fy", "/%C3%A9", "/x;p=1"}
	queries := []string{"", "?q=1", "?a=1&b=2", "?p=a|b"}
	if tier == "thorough" {
		paths = append(paths, "/a,b", "/a b")
		queries = append(queries, "?x=1;y=2")
	}
	var out []string
	for _, s := range schemes {
		for _, u := range users {
			for _, h := range hosts {
				for _, p := range paths {
					for qi, q := range queries {
						out = append(out, s+"://"+u+h+p+q)
						// ... and with a fragment (a label some configurations attach to a member's URL)
						if tier == "thorough" || qi < 2 {
							out = append(out, s+"://"+u+h+p+q+"#blue")
						}
					}
				}
			}
		}
	}
	return out
}

func ident(u *url.URL) string { return u.Scheme + "://" + u.Host + u.Path }

type front interface {
	ServeHTTP(http.ResponseWriter, *http.Request)
	UpsertServer(*url.URL, ...roundrobin.ServerOption) error
	RemoveServer(*url.URL) error
	Servers() []*url.URL
}

// innerAdminMode: (rebalancer variants) the servers are supplied to the balancer the rebalancer WRAPS - as they are
// when the rebalancer is put around a balancer that is already populated, or when the pool is administered through
// the balancer - while requests go through the rebalancer.
var innerAdminMode bool

type world struct {
	f         front
	admin     front // where UpsertServer / RemoveServer go (the front itself, or the wrapped balancer in innerAdminMode)
	seen      *url.URL
	calls     int
	pool      map[string]bool // reference membership: what the add/remove calls made so far define
	nreq      int             // requests sent with a cookie (selects the Cookie header layout)
	lostFront string          // first observation of the front handler's own cookie being wiped
}

func (w *world) upsert(u *url.URL, opts ...roundrobin.ServerOption) {
	arg := *u // the balancer is handed the caller's own value, which the caller overwrites once the call has returned
	err := w.admin.UpsertServer(&arg, opts...)
	lib.ReuseURL(&arg)
	if err == nil {
		w.pool[ident(u)] = true
	}
}

func (w *world) remove(u *url.URL) {
	arg := *u
	err := w.admin.RemoveServer(&arg)
	lib.ReuseURL(&arg)
	if err == nil {
		delete(w.pool, ident(u))
	}
}

// listenerMode: the balancers are configured with a request-rewrite listener that edits the
// outgoing request's URL in place (a non-default but public option).
var listenerMode bool

func newWorld(rebalancer bool, enc encoding) *world {
	w := &world{pool: map[string]bool{}}
	var chosen *url.URL
	h := http.HandlerFunc(func(rw http.ResponseWriter, r *http.Request) {
		w.calls++
		c := *r.URL
		w.seen = &c
		if listenerMode && chosen != nil {
			w.seen = chosen // what the balancer chose, before the listener edited the request
		}
		rw.WriteHeader(200)
	})
	listener := func(oldReq, newReq *http.Request) {
		c := *newReq.URL
		chosen = &c
		newReq.URL.Path += "/tenant/x"
		newReq.URL.RawQuery = "rewritten=1"
	}
	ss := roundrobin.NewStickySession(cookieName).SetCookieValue(enc.mk())
	if rebalancer {
		rr, err := roundrobin.New(h)
		if err != nil {
			panic(err)
		}
		ro := []roundrobin.RebalancerOption{roundrobin.RebalancerStickySession(ss)}
		if listenerMode {
			ro = append(ro, roundrobin.RebalancerRequestRewriteListener(listener))
		}
		rb, err := roundrobin.NewRebalancer(rr, ro...)
		if err != nil {
			panic(err)
		}
		w.f, w.admin = rb, rb
		if innerAdminMode {
			w.admin = rr
		}
	} else {
		lo := []roundrobin.LBOption{roundrobin.EnableStickySession(ss)}
		if listenerMode {
			lo = append(lo, roundrobin.RoundRobinRequestRewriteListener(listener))
		}
		rr, err := roundrobin.New(h, lo...)
		if err != nil {
			panic(err)
		}
		w.f, w.admin = rr, rr
	}
	return w
}

type result struct {
	panic  string
	served bool
	code   int
	seen   string // identity of the server the handler saw
	fresh  *http.Cookie
}

// do sends one request, with the cookie (if any) attached the way a client does.
func (w *world) do(c *http.Cookie) result {
	req := httptest.NewRequest("GET", "http://client/", nil)
	if c != nil {
		// the affinity cookie as a client would serialise it, placed in one of four layouts (cycling): alone; after
		// another cookie in the same line; in a SECOND Cookie header line; in the middle of three lines
		tmp := httptest.NewRequest("GET", "http://client/", nil)
		tmp.AddCookie(&http.Cookie{Name: c.Name, Value: c.Value})
		crumb := tmp.Header.Get("Cookie")
		switch w.nreq % 4 {
		case 0:
			req.Header.Add("Cookie", crumb)
		case 1:
			req.Header.Add("Cookie", "other=1; "+crumb)
		case 2:
			req.Header.Add("Cookie", "other=1")
			req.Header.Add("Cookie", crumb)
		default:
			req.Header.Add("Cookie", "first=1")
			req.Header.Add("Cookie", crumb)
			req.Header.Add("Cookie", "last=1; theme=dark")
		}
		w.nreq++
	}
	rec := httptest.NewRecorder()
	// a handler in FRONT of the balancer (another sticky tier, an auth layer) has already put a cookie of its own on
	// the response: the balancer adds its affinity cookie, it does not replace what is there
	rec.Header().Add("Set-Cookie", "front=1; Path=/")
	before := w.calls
	var panicked any
	func() {
		defer func() { panicked = recover() }()
		w.f.ServeHTTP(rec, req)
	}()
	r := result{served: w.calls > before, code: rec.Code}
	if panicked != nil {
		// a panic inside ServeHTTP makes net/http drop the connection: the request is rejected
		r.served, r.code, r.panic = false, 0, fmt.Sprint(panicked)
		return r
	}
	if r.served {
		r.seen = ident(w.seen)
	}
	frontKept := false
	for _, ck := range rec.Result().Cookies() {
		if ck.Name == cookieName {
			r.fresh = ck
		}
		if ck.Name == "front" {
			frontKept = true
		}
	}
	if !frontKept && w.lostFront == "" {
		w.lostFront = fmt.Sprintf("the response already carried Set-Cookie: front=1 when the balancer was called; afterwards Set-Cookie is %q", rec.Header().Values("Set-Cookie"))
	}
	return r
}

// member consults the reference membership, not Servers() (which is part of what is being checked).
func (w *world) member(id string) bool { return w.pool[id] }

// cookieFor returns a cookie minted by the balancer for server id (or nil).
func (w *world) cookieFor(id string) *http.Cookie {
	for k := 0; k < 12; k++ {
		r := w.do(nil)
		if r.served && r.seen == id && r.fresh != nil {
			return r.fresh
		}
	}
	return nil
}

type ctx struct {
	rep        *lib.Report
	rebalancer bool
	enc        encoding
	server     string
}

func (c ctx) front() string {
	if c.rebalancer {
		return "rebalancer"
	}
	return "rr"
}

func urlClass(s string) string {
	u, err := url.Parse(s)
	if err != nil {
		return "unparsable"
	}
	var f []string
	if u.User != nil {
		f = append(f, "userinfo")
	}
	if u.RawQuery != "" {
		f = append(f, "query")
	}
	if u.RawPath != "" || strings.Contains(u.EscapedPath(), "%") {
		f = append(f, "escaped-path")
	}
	if u.Fragment != "" {
		f = append(f, "fragment")
	}
	if strings.ContainsAny(s, ";,|") {
		f = append(f, "cookie-special-chars")
	}
	if len(f) == 0 {
		return "plain"
	}
	return strings.Join(f, "+")
}

func (c ctx) violate(kind, detail string, extra map[string]any) {
	rp := map[string]any{"engine": "enum", "part": "c11", "rebalancer": c.rebalancer, "encoding": c.enc.name, "server": c.server, "listener": listenerMode, "inner_admin": innerAdminMode}
	for k, v := range extra {
		rp[k] = v
	}
	encClass := c.enc.name
	if strings.HasPrefix(encClass, "fallback(") {
		encClass = "fallback"
	}
	c.rep.Violate(fmt.Sprintf("C11:%s:%s:%s", kind, encClass, urlClass(c.server)), fmt.Sprintf("[%s, %s, server %s] %s", c.front(), c.enc.name, c.server, detail), rp)
}

// expectStuck: with the intact cookie of S and S in the pool the handler must see S.
func (c ctx) expectStuck(w *world, ck *http.Cookie, id, when string, extra map[string]any) bool {
	r := w.do(ck)
	c.rep.Evaluations++
	if !r.served || r.code != 200 {
		c.violate("sticky-request-rejected", fmt.Sprintf("%s: request with the affinity cookie was not served (status %d)", when, r.code), extra)
		return false
	}
	if r.seen != id {
		c.violate("not-stuck", fmt.Sprintf("%s: request with the cookie issued for %s was routed to %s", when, id, r.seen), extra)
		return false
	}
	c.rep.Count("stuck_requests")
	return true
}

// expectBalanced: absent/invalid cookie => served by a current member, fresh cookie
// for the chosen server which itself works.
func (c ctx) expectBalanced(w *world, ck *http.Cookie, when string, extra map[string]any) bool {
	r := w.do(ck)
	c.rep.Evaluations++
	if !r.served || r.code != 200 {
		c.violate("request-rejected", fmt.Sprintf("%s: request was not served (status %d)", when, r.code), extra)
		return false
	}
	if !w.member(r.seen) {
		c.violate("routed-outside-pool", fmt.Sprintf("%s: routed to %s which is not a pool member", when, r.seen), extra)
		return false
	}
	if r.fresh == nil {
		c.violate("no-fresh-cookie", fmt.Sprintf("%s: the request was balanced (to %s) but no fresh affinity cookie was issued", when, r.seen), extra)
		return false
	}
	c.rep.Count("balanced_requests")
	// the fresh cookie must pin the client to the chosen server
	r2 := w.do(r.fresh)
	c.rep.Evaluations++
	if !r2.served || r2.seen != r.seen {
		c.violate("fresh-cookie-does-not-stick", fmt.Sprintf("%s: fresh cookie issued for %s, next request with it went to %q (status %d)", when, r.seen, r2.seen, r2.code), extra)
		return false
	}
	return true
}

func others(s string) []string {
	u, _ := url.Parse(s)
	near := *u
	if near.Scheme == "http" {
		near.Scheme = "https"
	} else {
		near.Scheme = "http"
	}
	near.User, near.RawQuery = nil, ""
	return []string{"http://other:80/o", near.String()}
}

// session: the basic obligations for one (front, encoding, server).
func session(c ctx) {
	clock.Freeze(base)
	w := newWorld(c.rebalancer, c.enc)
	defer func() {
		if w.lostFront != "" {
			c.violate("front-cookie-wiped", w.lostFront, nil)
		}
	}()
	su, err := url.Parse(c.server)
	if err != nil {
		return
	}
	id := ident(su)
	w.upsert(su)
	for _, o := range others(c.server) {
		w.upsert(mustURL(o))
	}
	c.rep.Count("sessions")
	ck := w.cookieFor(id)
	if ck == nil {
		c.violate("no-cookie-issued", "no affinity cookie could be obtained for the server", nil)
		return
	}
	// stuck regardless of rotation state
	for k := 0; k < 3; k++ {
		if !c.expectStuck(w, ck, id, fmt.Sprintf("attempt %d", k+1), nil) {
			return
		}
		w.do(nil) // unrelated request advances the rotation
	}
	// regardless of weights
	w.upsert(mustURL(others(c.server)[0]), roundrobin.Weight(5))
	if !c.expectStuck(w, ck, id, "after another server was re-weighted to 5", nil) {
		return
	}
	w.upsert(su, roundrobin.Weight(0))
	if !c.expectStuck(w, ck, id, "after the server itself was re-weighted to 0", nil) {
		return
	}
	w.upsert(su, roundrobin.Weight(1))
	// expiry
	// (an expiry instant beyond 2262-04-11 cannot be reached: instants past the range of nanosecond Unix time are
	// outside the domain of the library's clock arithmetic - such a cookie is only checked while it is valid)
	if c.enc.ttl > 0 && clock.Now().Add(c.enc.ttl).Before(time.Unix(0, math.MaxInt64).Add(-time.Hour)) {
		clock.Advance(c.enc.ttl - time.Second)
		if !c.expectStuck(w, ck, id, "one second before the cookie's ttl", nil) {
			return
		}
		clock.Advance(3 * time.Second)
		if r := w.do(ck); r.served && r.fresh == nil && r.seen == id {
			c.violate("expired-cookie-honoured", "two seconds after its ttl the cookie still pins the client (no fresh cookie issued)", nil)
			return
		}
		if !c.expectBalanced(w, ck, "two seconds after the cookie's ttl", nil) {
			return
		}
		c.rep.Count("expired_cookies")
		ck = w.cookieFor(id)
		if ck == nil {
			return
		}
	}
	// no cookie / removed server
	if !c.expectBalanced(w, nil, "no cookie", nil) {
		return
	}
	w.remove(su)
	if !c.expectBalanced(w, ck, "cookie names a server that was removed", nil) {
		return
	}
	w.upsert(su)
	c.expectStuck(w, ck, id, "after the server was re-added", nil)
}

func mustURL(s string) *url.URL {
	u, err := url.Parse(s)
	if err != nil {
		panic(err)
	}
	return u
}

// poolChanges: BFS to depth 3 over pool-change operations between the requests of a session.
func poolChanges(c ctx) {
	ops := []string{"add-other", "remove-other", "reweight-S-0", "reweight-S-3", "remove-S", "readd-S", "unrelated-request"}
	su := mustURL(c.server)
	id := ident(su)
	extraSrv := mustURL("http://extra:80/e")
	var rec func(seq []int)
	rec = func(seq []int) {
		if len(seq) > 0 {
			clock.Freeze(base)
			w := newWorld(c.rebalancer, c.enc)
			w.upsert(su)
			w.upsert(mustURL("http://other:80/o"))
			ck := w.cookieFor(id)
			if ck == nil {
				return
			}
			var names []string
			for _, o := range seq {
				names = append(names, ops[o])
				switch o {
				case 0:
					w.upsert(extraSrv)
				case 1:
					w.remove(extraSrv)
				case 2:
					if w.member(id) {
						w.upsert(su, roundrobin.Weight(0))
					}
				case 3:
					if w.member(id) {
						w.upsert(su, roundrobin.Weight(3))
					}
				case 4:
					w.remove(su)
				case 5:
					w.upsert(su)
				case 6:
					w.do(nil)
				}
			}
			c.rep.Count("pool_change_sequences")
			extra := map[string]any{"pool_changes": names}
			if w.member(id) {
				c.expectStuck(w, ck, id, fmt.Sprintf("after pool changes %v", names), extra)
			} else {
				c.expectBalanced(w, ck, fmt.Sprintf("after pool changes %v (server gone)", names), extra)
			}
		}
		if len(seq) == 3 {
			return
		}
		for o := range ops {
			rec(append(seq, o))
		}
	}
	rec(nil)
}

// refDecode: does the cookie value still name a member under the reference semantics
// of the unauthenticated encodings?
func refDecode(enc encoding, value string, w *world) (string, bool) {
	for _, u := range w.f.Servers() {
		switch enc.name {
		case "raw":
			if p, err := url.Parse(value); err == nil && ident(p) == ident(u) {
				return ident(u), true
			}
		}
	}
	return "", false
}

// mutations: every truncation, every single-bit flip, re-encodings, foreign keys.
func mutations(c ctx) {
	clock.Freeze(base)
	w := newWorld(c.rebalancer, c.enc)
	su := mustURL(c.server)
	id := ident(su)
	w.upsert(su)
	w.upsert(mustURL("http://other:80/o"))
	ck := w.cookieFor(id)
	if ck == nil {
		return
	}
	var muts []string
	v := ck.Value
	for n := 0; n < len(v); n++ {
		muts = append(muts, v[:n])
	}
	for i := 0; i < len(v); i++ {
		for b := 0; b < 8; b++ {
			m := []byte(v)
			m[i] ^= 1 << b
			muts = append(muts, string(m))
		}
	}
	muts = append(muts, strings.ToUpper(v), strings.ToLower(v), v+v, v+"A", strings.Repeat("A", 5000), "%%%", "|", "http://", "://",
		base64.StdEncoding.EncodeToString([]byte(v)), base64.RawURLEncoding.EncodeToString([]byte(v)))
	// values minted under another key / salt / encoding for the same server
	for _, other := range []encoding{{"aes-other-key", aes(key16b, 0), true, 0}, {"hash-other-salt", func() stickycookie.CookieValue { return &stickycookie.HashValue{Salt: "zzz"} }, false, 0}} {
		fv := other.mk().Get(su)
		if fv == v && strings.HasPrefix(c.enc.name, "hash") {
			// a value minted under ANOTHER salt is, by the property, not a valid cookie of this balancer - it
			// cannot be told apart from the valid one if it is the same string
			c.violate("foreign-salt-mints-valid-cookie", fmt.Sprintf("a hash encoding with salt %q minted %q for %s - exactly the cookie the configured encoding (%s) issues", "zzz", fv, c.server, c.enc.name), map[string]any{"mutation_of": "cookie"})
			return
		}
		muts = append(muts, fv)
	}
	for _, m := range muts {
		if m == v {
			continue
		}
		r := w.do(&http.Cookie{Name: cookieName, Value: m})
		c.rep.Evaluations++
		c.rep.Count("mutated_cookies")
		extra := map[string]any{"cookie": m, "original": v}
		if !r.served || r.code != 200 {
			c.violate("mutated-cookie-rejected", fmt.Sprintf("request with a mutated cookie (%d characters) was not served (status %d, panic %q)", len(m), r.code, r.panic), map[string]any{"mutation_of": "cookie", "length": len(m)})
			return
		}
		if !w.member(r.seen) {
			c.violate("routed-outside-pool", fmt.Sprintf("mutated cookie %.60q: routed to %s", m, r.seen), extra)
			return
		}
		if c.enc.auth {
			// what the balancer receives after net/http's cookie sanitising, decoded: if the
			// bytes are those of the original (non-canonical base64 tail bits, dropped invalid
			// characters) the cookie is intact; otherwise it is forged and must not be honoured
			probe := httptest.NewRequest("GET", "http://client/", nil)
			probe.AddCookie(&http.Cookie{Name: cookieName, Value: m})
			sv := ""
			if pc, err := probe.Cookie(cookieName); err == nil {
				sv = pc.Value
			}
			a, errA := base64.RawURLEncoding.DecodeString(sv)
			b, _ := base64.RawURLEncoding.DecodeString(v)
			intact := errA == nil && string(a) == string(b)
			if intact && r.seen != id {
				c.violate("intact-cookie-ignored", fmt.Sprintf("cookie %.20q... decodes to the original bytes but the request went to %s", m, r.seen), map[string]any{"mutation_of": "cookie"})
				return
			}
			if !intact && r.fresh == nil {
				// the request has to be balanced normally, which always issues a fresh cookie
				c.violate("forged-cookie-honoured", "a tampered cookie (decoded bytes differ from the issued ones) was accepted as valid: no fresh cookie issued, routed to "+r.seen, map[string]any{"mutation_of": "cookie"})
				return
			}
		}
		if want, ok := refDecode(c.enc, m, w); ok && r.seen != want {
			c.violate("decodable-cookie-ignored", fmt.Sprintf("cookie %.60q still names member %s but the request went to %s", m, want, r.seen), extra)
			return
		}
	}
}

func Run(tier string, sh lib.Shard, rep *lib.Report) {
	urls := serverURLs(tier)
	encs := encodings()
	rep.Bounds["server_urls"] = len(urls)
	rep.Bounds["encodings"] = len(encs)
	rep.Rule = "full product server URL (scheme x userinfo x host x path x query) x cookie encoding (raw, hash, AES 16/32 without and with a lifetime of 5s, 250 years, the largest duration; 16 fallback chains) x front (RoundRobin, Rebalancer): session obligations; for a subset of URLs every truncation / single-bit flip / re-encoding / foreign-key cookie and every pool-change sequence up to length 3; non-trivial = requests whose routing was checked"
	rep.Require("sessions", "stuck_requests", "balanced_requests", "expired_cookies", "mutated_cookies", "pool_change_sequences", "sessions_with_rewrite_listener", "sessions_with_servers_supplied_to_the_wrapped_balancer")
	if sh.I == 0 {
		fwd.StickyThroughForwarder(rep)
		rep.Require("sticky_exchanges_through_the_real_forwarder")
	}
	mutURLs := map[string]bool{}
	for i, u := range urls {
		if tier == "thorough" || i%71 == 0 {
			mutURLs[u] = true
		}
	}
	k := 0
	for _, u := range urls {
		for _, enc := range encs {
			for _, rb := range []bool{false, true} {
				mine := sh.Mine(k)
				k++
				if !mine || lib.Expired() {
					continue
				}
				c := ctx{rep, rb, enc, u}
				listenerMode = false
				session(c)
				if k%5 == 0 {
					// the same obligations with a URL-editing request-rewrite listener configured
					listenerMode = true
					session(c)
					listenerMode = false
					rep.Count("sessions_with_rewrite_listener")
				}
				if rb && k%3 == 0 {
					// the same obligations with the servers supplied to the WRAPPED balancer
					innerAdminMode = true
					session(c)
					innerAdminMode = false
					rep.Count("sessions_with_servers_supplied_to_the_wrapped_balancer")
				}
				if mutURLs[u] && !strings.HasPrefix(enc.name, "fallback") {
					mutations(c)
					poolChanges(c)
				}
				rep.Sample(3, map[string]any{"server": u, "encoding": enc.name, "rebalancer": rb})
			}
		}
	}
	if lib.Expired() {
		rep.Exhaustive = false
	}
	rep.Nontrivial = rep.Counters["stuck_requests"] + rep.Counters["balanced_requests"] + rep.Counters["mutated_cookies"]
}

func Replay(rp map[string]any) (bool, string) {
	name, _ := rp["encoding"].(string)
	for _, enc := range encodings() {
		if enc.name != name {
			continue
		}
		rep := lib.NewReport("C11", "replay")
		c := ctx{rep, rp["rebalancer"] == true, enc, rp["server"].(string)}
		listenerMode = rp["listener"] == true
		innerAdminMode = rp["inner_admin"] == true
		session(c)
		listenerMode, innerAdminMode = false, false
		if len(rep.Violations) == 0 {
			mutations(c)
			poolChanges(c)
		}
		key, _ := rp["key"].(string)
		for _, v := range rep.Violations {
			if v.Key == key {
				return true, v.Key + " :: " + v.Detail
			}
		}
		if len(rep.Violations) > 0 {
			return true, rep.Violations[0].Key + " :: " + rep.Violations[0].Detail
		}
		return false, "session obligations hold for this server URL and encoding"
	}
	return false, "unknown encoding " + name
}

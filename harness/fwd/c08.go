package fwd

import (
	"bufio"
	"bytes"
	"crypto/tls"
	"fmt"
	"net"
	"net/http"
	"net/textproto"
	"net/url"
	"os"
	"strings"
	"time"

	"github.com/vulcand/oxy/v2/forward"
	"github.com/vulcand/oxy/v2/zverif/lib"
)

type c08case struct {
	target   string
	headers  [][2]string
	host     string
	peer     string
	tls      bool
	passHost bool
	group    string
	absolute bool // the request line carries the absolute form (http://host/path?query), as a client talking to a proxy sends it
	// the backend URL the caller chose carries, beside scheme and host, ANOTHER SPELLING OF THE CLIENT'S OWN PATH
	// (every byte percent-escaped) and a query of its own: only scheme and host may be taken from it
	aliasBackend bool
}

func (c c08case) String() string {
	t := c.target
	if c.absolute {
		t = "http://" + c.host + t
	}
	if c.aliasBackend {
		t += " (backend URL spells the same path with every byte escaped)"
	}
	return fmt.Sprintf("GET %s host=%q peer=%s tls=%v passHost=%v headers=%v", t, c.host, c.peer, c.tls, c.passHost, c.headers)
}

// escapedSpelling: every byte of the decoded path but '/' as %XX - a valid encoding of the same path.
func escapedSpelling(path string) string {
	var sb strings.Builder
	for i := 0; i < len(path); i++ {
		if path[i] == '/' {
			sb.WriteByte('/')
			continue
		}
		fmt.Fprintf(&sb, "%%%02X", path[i])
	}
	return sb.String()
}

var hopByHop = map[string]bool{"Connection": true, "Proxy-Connection": true, "Keep-Alive": true, "Proxy-Authenticate": true,
	"Proxy-Authorization": true, "Te": true, "Trailer": true, "Transfer-Encoding": true, "Upgrade": true}

var fwdNames = []string{"X-Forwarded-Proto", "X-Forwarded-Host", "X-Forwarded-Port", "X-Forwarded-For", "X-Real-Ip"}

func targets() []string {
	segs := []string{"a", "%2F", "%2f", "%20", "%C3%A9", ";p=1", "+", ".", "..", "", "~!$&'()*,=:@"}
	queries := []string{"", "?", "?a=b", "?a=b&c=d%20e", "?x=1;y=2", "?q=%2B+"}
	var paths []string
	for _, a := range segs {
		paths = append(paths, "/"+a)
		for _, b := range segs {
			paths = append(paths, "/"+a+"/"+b)
			for _, c := range segs {
				paths = append(paths, "/"+a+"/"+b+"/"+c)
			}
		}
	}
	var out []string
	for _, p := range paths {
		for _, q := range queries {
			out = append(out, p+q)
		}
	}
	return out
}

func headerCases() [][][2]string {
	out := [][][2]string{
		{{"Accept", "*/*"}},
		{{"Authorization", "Bearer abc"}, {"Cookie", "a=1"}, {"Cookie", "b=2"}, {"X-Custom", "v1"}, {"X-Custom", "v2, v3"}, {"Accept-Encoding", "br"}, {"User-Agent", "ua/1.0"}, {"x-lower", "MiXeD"}},
		{{"Keep-Alive", "timeout=5"}, {"Accept", "*/*"}},
		{{"Proxy-Authorization", "Basic eHl6"}},
		{{"Proxy-Authenticate", "Basic"}},
		{{"Te", "gzip"}},
		{{"Trailer", "X-T"}},
		{{"Proxy-Connection", "keep-alive"}},
		{{"Connection", "close"}, {"Accept", "*/*"}},
		{{"Connection", "X-Custom-Hop"}, {"X-Custom-Hop", "1"}, {"X-Kept", "yes"}},
		{{"Connection", "keep-alive, X-Custom-Hop"}, {"X-Custom-Hop", "1"}, {"Keep-Alive", "timeout=1"}},
		{{"Connection", "x-custom-hop"}, {"X-Custom-Hop", "1"}},
		// legal list syntax with empty elements, an empty value, the header twice
		{{"Connection", "keep-alive,"}, {"X-Kept", "yes"}},
		{{"Connection", "keep-alive, ,X-Custom-Hop"}, {"X-Custom-Hop", "1"}, {"X-Kept", "yes"}},
		{{"Connection", ""}, {"X-Kept", "yes"}},
		{{"Connection", "X-Custom-Hop"}, {"Connection", " , x-real-ip"}, {"X-Custom-Hop", "1"}, {"X-Real-Ip", "203.0.113.7"}},
	}
	supplied := map[string]string{"X-Forwarded-Proto": "https", "X-Forwarded-Host": "upstream.example", "X-Forwarded-Port": "8443", "X-Forwarded-For": "203.0.113.7", "X-Real-Ip": "203.0.113.7"}
	for mask := 0; mask < 1<<len(fwdNames); mask++ {
		var hs [][2]string
		for i, n := range fwdNames {
			if mask&(1<<i) != 0 {
				hs = append(hs, [2]string{n, supplied[n]})
			}
		}
		out = append(out, append([][2]string{{"Accept", "*/*"}}, hs...))
		// the client names forwarding headers as hop-by-hop
		for _, n := range append(append([]string{}, fwdNames...), "X-Forwarded-Server", "X-Forwarded-Host, X-Real-Ip, X-Forwarded-Proto",
			// list elements set off by horizontal tabs (the optional whitespace of a list may be a tab as well as a blank)
			"close,\tX-Real-Ip", "X-Forwarded-For\t, close", "X-Forwarded-Host,\tX-Forwarded-Proto\t,\tX-Forwarded-Port") {
			out = append(out, append([][2]string{{"Connection", n}}, hs...))
		}
	}
	return out
}

func c08cases(tier string) []c08case {
	var out []c08case
	ts := targets()
	for i, t := range ts {
		for _, ph := range []bool{false, true} {
			out = append(out, c08case{t, [][2]string{{"Accept", "*/*"}}, "front.example", "1.2.3.4:5", false, ph, "targets", false, false})
			out = append(out, c08case{t, [][2]string{{"Accept", "*/*"}}, "front.example", "1.2.3.4:5", false, ph, "targets", false, true})
			if i%7 == 3 && strings.HasPrefix(t, "/") && !strings.HasPrefix(t, "//") {
				out = append(out, c08case{t, [][2]string{{"Accept", "*/*"}}, "public.example", "1.2.3.4:5", false, ph, "targets", true, false})
			}
		}
	}
	hosts := []string{"front.example", "front.example:8080", "[2001:db8::1]:8443"}
	peers := []string{"1.2.3.4:5", "[::1]:5", "[fe80::1%eth0]:5"}
	hts := []string{"/a/b?x=1", "/%2F/a%20b?", "//x/../y?q=%2B+"}
	for hi, hs := range headerCases() {
		for _, t := range hts {
			for _, h := range hosts {
				for _, p := range peers {
					for _, tl := range []bool{false, true} {
						for _, ph := range []bool{false, true} {
							if tier != "thorough" && hi >= 12 && (len(t)+len(h)+len(p))%3 != hi%3 {
								continue // quick: a third of the (target,host,peer) combinations per forwarding-header case
							}
							out = append(out, c08case{t, hs, h, p, tl, ph, "headers", false, false})
						}
					}
				}
			}
		}
	}
	return out
}

type world struct {
	held, release    chan struct{} // overlap special: exchange A is parked in the transport
	preambleFailure  string
	preambleRequests int
	backend          *Backend
	aliasBackend     bool
	proxies          [2]http.Handler
	hostname         string
}

var backendResponse = []byte("HTTP/1.1 200 OK\r\nContent-Length: 2\r\nKeep-Alive: timeout=9\r\nProxy-Authenticate: Basic\r\nX-Backend: one\r\nX-Backend: two\r\nSet-Cookie: a=1\r\nSet-Cookie: b=2\r\nConnection: X-Resp-Hop\r\nX-Resp-Hop: 1\r\nTrailer: X-None\r\n\r\nok")

func newWorld() *world {
	w := &world{backend: NewBackend()}
	w.hostname, _ = os.Hostname()
	for i, ph := range []bool{false, true} {
		f := forward.New(ph)
		f.Transport = &gateTransport{inner: &http.Transport{MaxIdleConns: 1, IdleConnTimeout: time.Second}, w: w}
		bu := &url.URL{Scheme: "http", Host: w.backend.Addr}
		w.proxies[i] = http.HandlerFunc(func(rw http.ResponseWriter, r *http.Request) {
			if w.aliasBackend {
				r.URL = &url.URL{Scheme: bu.Scheme, Host: bu.Host, Path: r.URL.Path, RawPath: escapedSpelling(r.URL.Path), RawQuery: "backend-query=must-not-be-used"}
			} else {
				r.URL = &url.URL{Scheme: bu.Scheme, Host: bu.Host, Path: "/backend-path-must-not-be-used"}
			}
			f.ServeHTTP(rw, r)
		})
	}
	w.preamble()
	return w
}

// preamble: before any case is run, both forwarders serve a few legal but odd requests (no Host at all, empty
// Host, asterisk form). They must be forwarded without a crash - and, because the same forwarders then serve
// every enumerated case, anything such a request leaves behind in a forwarder shows up in the cases' oracles.
func (w *world) preamble() {
	for pi := range w.proxies {
		for _, raw := range []string{"GET /pre?x=1 HTTP/1.0\r\n\r\n", "GET /pre HTTP/1.1\r\nHost:\r\n\r\n", "OPTIONS * HTTP/1.1\r\nHost: front.example\r\n\r\n"} {
			req, err := lib.ParseRequest(raw)
			if err != nil {
				continue
			}
			req.RemoteAddr = "1.2.3.4:5"
			w.backend.Drain()
			w.backend.Play([]step{{stepWrite, backendResponse}})
			rec := lib.Serve(w.proxies[pi], req)
			got := w.backend.Received(5 * time.Second)
			if rec.Panic != nil || got == nil {
				w.preambleFailure = fmt.Sprintf("%q through forwarder passHost=%v: status %d, panic %v, backend reached: %v", raw, pi == 1, rec.Code, rec.Panic, got != nil)
			} else if wr, err := parseWire(got); err == nil {
				// the request target must arrive as the client wrote it (asterisk form included)
				want := strings.SplitN(raw, " HTTP/", 2)[0] + " HTTP/1.1"
				if wr.line != want {
					w.preambleFailure = fmt.Sprintf("client sent %q, backend received %q (forwarder passHost=%v)", want, wr.line, pi == 1)
				}
			}
			w.preambleRequests++
		}
	}
}

// gateTransport holds an exchange marked with X-Hold between the forwarder's rewriting and the moment the request
// is written to the backend - where a request waits while a connection is being dialled.
type gateTransport struct {
	inner http.RoundTripper
	w     *world
}

func (g *gateTransport) RoundTrip(r *http.Request) (*http.Response, error) {
	if r.Header.Get("X-Hold") != "" && g.w.held != nil {
		close(g.w.held)
		<-g.w.release
	}
	return g.inner.RoundTrip(r)
}

// overlap: exchange A (plain, IPv4 peer) is held after it was rewritten; exchange B (TLS, IPv6 peer, other Host)
// runs from start to finish; A is released. The backend must see, for EACH request, the forwarding headers of
// that request's own incoming connection.
func (w *world) overlap(rep *lib.Report) {
	type side struct {
		peer, host string
		tls        bool
		ip         string
		proto      string
		port       string
	}
	a := side{"10.1.1.1:1111", "slow.example", false, "10.1.1.1", "http", "80"}
	b := side{"[2001:db8::2]:2222", "fast.example:8443", true, "2001:db8::2", "https", "8443"}
	mkReq := func(s side, path string, hold bool) *http.Request {
		hs := [][2]string{{"Accept", "*/*"}}
		if hold {
			hs = append(hs, [2]string{"X-Hold", "1"})
		}
		raw := strings.Replace(lib.RawRequest("GET", path, hs, nil, 0), "Host: client.example\r\n", "Host: "+s.host+"\r\n", 1)
		req, _ := lib.ParseRequest(raw)
		req.RemoteAddr = s.peer
		if s.tls {
			req.TLS = &tls.ConnectionState{}
		}
		return req
	}
	check := func(pi int, which string, s side, got []byte) {
		what := map[string]any{"engine": "enum", "part": "c08", "case": "overlap"}
		if got == nil {
			rep.Violate("C08:backend-not-reached:overlapping-exchanges", which, what)
			return
		}
		wr, err := parseWire(got)
		if err != nil {
			rep.Violate("C08:backend-got-malformed-request", fmt.Sprintf("overlap %s: %v", which, err), what)
			return
		}
		xff := strings.Join(wr.headers["X-Forwarded-For"], ", ")
		obs := fmt.Sprintf("X-Forwarded-For=%q X-Real-Ip=%q X-Forwarded-Proto=%q X-Forwarded-Host=%q X-Forwarded-Port=%q", xff, wr.headers.Get("X-Real-Ip"), wr.headers.Get("X-Forwarded-Proto"), wr.headers.Get("X-Forwarded-Host"), wr.headers.Get("X-Forwarded-Port"))
		if xff != s.ip || wr.headers.Get("X-Real-Ip") != s.ip || wr.headers.Get("X-Forwarded-Proto") != s.proto || wr.headers.Get("X-Forwarded-Host") != s.host || wr.headers.Get("X-Forwarded-Port") != s.port {
			rep.Violate("C08:forwarding-header:overlapping-exchanges", fmt.Sprintf("passHost=%v, exchange %s (peer %s, Host %s, TLS %v) overlapped another exchange; backend received %s", pi == 1, which, s.peer, s.host, s.tls, obs), what)
			return
		}
		rep.Count("overlapping_exchanges_checked")
	}
	for pi := range w.proxies {
		w.backend.Drain()
		w.backend.Play([]step{{stepWrite, backendResponse}})
		w.held, w.release = make(chan struct{}), make(chan struct{})
		doneA := make(chan *lib.Recorder, 1)
		go func() { doneA <- lib.Serve(w.proxies[pi], mkReq(a, "/slow", true)) }()
		select {
		case <-w.held:
		case <-time.After(20 * time.Second):
			rep.DistrustF("overlap special: exchange A never reached the transport")
			close(w.release)
			continue
		}
		recB := lib.Serve(w.proxies[pi], mkReq(b, "/fast", false))
		gotB := w.backend.Received(5 * time.Second)
		close(w.release)
		recA := <-doneA
		gotA := w.backend.Received(5 * time.Second)
		w.held = nil
		rep.Evaluations += 2
		if recA.Panic != nil || recB.Panic != nil || recA.Code != 200 || recB.Code != 200 {
			rep.Violate("C08:exchange-failed", fmt.Sprintf("overlapping exchanges: A status %d panic %v, B status %d panic %v", recA.Code, recA.Panic, recB.Code, recB.Panic), map[string]any{"engine": "enum", "part": "c08", "case": "overlap"})
			continue
		}
		check(pi, "B", b, gotB)
		check(pi, "A", a, gotA)
	}
}

type wire struct {
	line    string
	headers textproto.MIMEHeader
	order   []string
}

func parseWire(b []byte) (*wire, error) {
	tp := textproto.NewReader(bufio.NewReader(bytes.NewReader(b)))
	line, err := tp.ReadLine()
	if err != nil {
		return nil, err
	}
	h, err := tp.ReadMIMEHeader()
	if err != nil && len(h) == 0 {
		return nil, err
	}
	return &wire{line: line, headers: h}, nil
}

func runC08(w *world, c c08case, rep *lib.Report) {
	lineTarget := c.target
	if c.absolute {
		lineTarget = "http://" + c.host + c.target
	}
	raw := lib.RawRequest("GET", lineTarget, append([][2]string{}, c.headers...), nil, 0)
	raw = strings.Replace(raw, "Host: client.example\r\n", "Host: "+c.host+"\r\n", 1)
	req, err := lib.ParseRequest(raw)
	if err != nil {
		rep.DistrustF("C08 harness produced an unparsable request %q: %v", c.target, err)
		return
	}
	req.RemoteAddr = c.peer
	if c.tls {
		req.TLS = &tls.ConnectionState{}
	}
	w.backend.Drain()
	w.backend.Play([]step{{stepWrite, backendResponse}})
	pi := 0
	if c.passHost {
		pi = 1
	}
	w.aliasBackend = c.aliasBackend
	rec := lib.Serve(w.proxies[pi], req)
	w.aliasBackend = false
	rep.Evaluations++
	if c.aliasBackend {
		rep.Count("targets_with_the_backend_url_spelling_the_same_path")
	}
	what := func() map[string]any {
		return map[string]any{"engine": "enum", "part": "c08", "case": c.String()}
	}
	if rec.Panic != nil || rec.Code != 200 {
		rep.Violate("C08:exchange-failed", fmt.Sprintf("%v: status %d panic %v", c, rec.Code, rec.Panic), what())
		return
	}
	got := w.backend.Received(5 * time.Second)
	if got == nil {
		rep.Violate("C08:backend-not-reached", c.String(), what())
		return
	}
	wr, err := parseWire(got)
	if err != nil {
		rep.Violate("C08:backend-got-malformed-request", fmt.Sprintf("%v: %v: %.200q", c, err, got), what())
		return
	}
	// 1. request line
	if want := "GET " + c.target + " HTTP/1.1"; wr.line != want {
		kind := "path"
		if strings.HasSuffix(c.target, "?") {
			kind = "bare-question-mark"
		} else if i := strings.Index(c.target, "?"); i >= 0 && !strings.HasPrefix(wr.line, "GET "+c.target[:i]+"?") {
			kind = "path"
		} else if i >= 0 {
			kind = "query"
		}
		rep.Violate("C08:request-target-altered:"+kind, fmt.Sprintf("client sent %q, backend received %q", want, wr.line), what())
		return
	}
	// 2. Host
	wantHost := w.backend.Addr
	if c.passHost {
		wantHost = c.host
	}
	if h := wr.headers.Get("Host"); h != wantHost {
		rep.Violate(fmt.Sprintf("C08:host-header:passHost=%v", c.passHost), fmt.Sprintf("%v: backend saw Host %q, want %q", c, h, wantHost), what())
		return
	}
	// 3./4. hop-by-hop vs end-to-end
	named := map[string]bool{}
	client := textproto.MIMEHeader{}
	for _, h := range c.headers {
		k := textproto.CanonicalMIMEHeaderKey(h[0])
		client[k] = append(client[k], h[1])
		if k == "Connection" {
			for _, t := range strings.Split(h[1], ",") {
				named[textproto.CanonicalMIMEHeaderKey(strings.TrimSpace(t))] = true
			}
		}
	}
	isFwd := func(k string) bool { return strings.HasPrefix(k, "X-Forwarded-") || k == "X-Real-Ip" }
	for k, vs := range client {
		switch {
		case hopByHop[k] || (named[k] && !isFwd(k)):
			gotv := wr.headers[k]
			if k == "Te" && len(gotv) == 1 && gotv[0] == "trailers" {
				continue
			}
			if len(gotv) > 0 {
				kk := k
				if !hopByHop[k] {
					kk = "named-in-connection"
				}
				rep.Violate("C08:hop-by-hop-forwarded:"+kk, fmt.Sprintf("%v: hop-by-hop header %s: %v reached the backend", c, k, gotv), what())
				return
			}
			rep.Count("hop_by_hop_headers_checked")
		case isFwd(k):
		default:
			if fmt.Sprint(wr.headers[k]) != fmt.Sprint(vs) {
				rep.Violate("C08:end-to-end-header-altered", fmt.Sprintf("%v: client sent %s: %v, backend received %v", c, k, vs, wr.headers[k]), what())
				return
			}
			rep.Count("end_to_end_headers_checked")
		}
	}
	// 5. forwarding headers
	peerIP, _, _ := net.SplitHostPort(c.peer)
	peerNoZone := strings.Split(peerIP, "%")[0]
	connNamed := func(k string) string {
		if named[k] {
			return ":named-in-connection"
		}
		return ""
	}
	expect := func(k string, allowed ...string) bool {
		v := wr.headers[k]
		sup := client[k]
		if len(sup) > 0 && !named[k] {
			allowed = []string{sup[0]} // supplied by an upstream proxy: kept
		} else if len(sup) > 0 {
			allowed = append(allowed, sup[0]) // supplied but declared hop-by-hop by the client: either reading
		}
		ok := len(v) == 1
		if ok {
			ok = false
			for _, a := range allowed {
				if v[0] == a {
					ok = true
				}
			}
		}
		if !ok {
			what := "derived"
			if len(sup) > 0 {
				what = "supplied"
			}
			rep.Violate("C08:forwarding-header:"+k+":"+what+connNamed(k), fmt.Sprintf("%v: backend received %s: %v, want one of %v", c, k, v, allowed), map[string]any{"engine": "enum", "part": "c08", "case": c.String()})
		}
		return ok
	}
	proto := "http"
	if c.tls {
		proto = "https"
	}
	if !expect("X-Forwarded-Proto", proto) {
		return
	}
	if !expect("X-Forwarded-Host", c.host) {
		return
	}
	ports := []string{}
	if _, p, err := net.SplitHostPort(c.host); err == nil && p != "" {
		ports = append(ports, p)
	} else {
		if c.tls {
			ports = append(ports, "443")
		} else {
			ports = append(ports, "80")
		}
		// a supplied protocol that contradicts the connection: either reading
		if sp := client.Get("X-Forwarded-Proto"); sp == "https" {
			ports = append(ports, "443")
		}
	}
	if !expect("X-Forwarded-Port", ports...) {
		return
	}
	if !expect("X-Real-Ip", peerNoZone, peerIP) {
		return
	}
	// X-Forwarded-Server: our own name (a supplied value may be kept or replaced)
	if v := wr.headers["X-Forwarded-Server"]; len(v) != 1 || v[0] == "" {
		rep.Violate("C08:forwarding-header:X-Forwarded-Server"+connNamed("X-Forwarded-Server"), fmt.Sprintf("%v: backend received X-Forwarded-Server: %v", c, v), what())
		return
	}
	// X-Forwarded-For: peer appended to what was supplied
	xff := strings.Join(wr.headers["X-Forwarded-For"], ", ")
	prior := client.Get("X-Forwarded-For")
	okXff := false
	for _, ip := range []string{peerIP, peerNoZone} {
		if xff == ip || (prior != "" && xff == prior+", "+ip) {
			okXff = true
		}
	}
	if !okXff || (prior != "" && !named["X-Forwarded-For"] && !strings.HasPrefix(xff, prior)) {
		rep.Violate("C08:forwarding-header:X-Forwarded-For"+connNamed("X-Forwarded-For"), fmt.Sprintf("%v: backend received X-Forwarded-For: %q, want the peer %s appended to %q", c, xff, peerIP, prior), what())
		return
	}
	rep.Count("forwarding_header_sets_checked")
	// response direction
	rh := rec.Header()
	if fmt.Sprint(rh["X-Backend"]) != "[one two]" || fmt.Sprint(rh["Set-Cookie"]) != "[a=1 b=2]" {
		rep.Violate("C08:response-end-to-end-header-altered", fmt.Sprintf("client received X-Backend %v Set-Cookie %v", rh["X-Backend"], rh["Set-Cookie"]), what())
		return
	}
	for _, k := range []string{"Keep-Alive", "Proxy-Authenticate", "X-Resp-Hop", "Connection", "Trailer"} {
		if len(rh[k]) > 0 {
			rep.Violate("C08:response-hop-by-hop-forwarded:"+k, fmt.Sprintf("client received hop-by-hop response header %s: %v", k, rh[k]), what())
			return
		}
	}
	if strings.Contains(c.target, "%") {
		rep.Count("targets_with_escapes")
	}
	if len(named) > 0 {
		rep.Count("cases_with_connection_named_headers")
	}
	if len(named) > 0 || strings.Contains(c.target, "%") {
		rep.Nontrivial++ // distinct case, counted once
	}
}

func RunC08(tier string, sh lib.Shard, rep *lib.Report) {
	cases := c08cases(tier)
	rep.Bounds["cases"] = len(cases)
	rep.Bounds["request_targets"] = len(targets())
	rep.Bounds["header_cases"] = len(headerCases())
	rep.Rule = "exhaustive: request targets = all paths of <= 3 segments over 11 segment forms x 6 query forms (x pass-host), and header cases (hop-by-hop alone / named in Connection, end-to-end multi-valued, every subset of upstream-supplied forwarding headers, Connection naming each of them) x 3 targets x Host {plain, with port, IPv6 literal} x peer {IPv4, IPv6, IPv6 zone} x TLS x pass-host; request parsed by http.ReadRequest, real forward.New proxy (two long-lived forwarders that first serve Host-less, empty-Host and asterisk-form requests, then every case; plus two exchanges overlapping inside the transport), raw TCP backend recording the exact bytes; non-trivial = targets with escapes + header cases naming headers in Connection"
	rep.Assume("net/http's transport may add Accept-Encoding/User-Agent handling of its own; only headers the client sent and the forwarding headers are compared", "Upgrade (protocol switching) is outside the alphabet")
	rep.Require("targets_with_escapes", "targets_with_the_backend_url_spelling_the_same_path", "cases_with_connection_named_headers", "hop_by_hop_headers_checked", "end_to_end_headers_checked", "forwarding_header_sets_checked")
	w := newWorld()
	defer w.backend.Close()
	rep.Add("preamble_requests_without_host_or_in_asterisk_form", w.preambleRequests)
	if w.preambleFailure != "" {
		rep.Violate("C08:odd-request-not-forwarded", w.preambleFailure, map[string]any{"engine": "enum", "part": "c08", "case": "preamble"})
	}
	if sh.I == 0 {
		w.overlap(rep)
		rep.Require("overlapping_exchanges_checked")
	}
	for i, c := range cases {
		if !sh.Mine(i) {
			continue
		}
		if lib.Expired() {
			rep.Exhaustive = false
			break
		}
		runC08(w, c, rep)
		if i%7919 == 0 {
			rep.Sample(4, c.String())
		}
	}
}

func ReplayC08(rp map[string]any) (bool, string) {
	want, _ := rp["case"].(string)
	w := newWorld()
	defer w.backend.Close()
	if want == "overlap" {
		rep := lib.NewReport("C08", "replay")
		w.overlap(rep)
		if len(rep.Violations) > 0 {
			return true, rep.Violations[0].Key + " :: " + rep.Violations[0].Detail
		}
		return false, "each overlapping exchange carried its own forwarding headers"
	}
	if want == "preamble" {
		return w.preambleFailure != "", "C08:odd-request-not-forwarded :: " + w.preambleFailure
	}
	for _, tier := range []string{"quick", "thorough"} {
		for _, c := range c08cases(tier) {
			if c.String() == want {
				rep := lib.NewReport("C08", "replay")
				runC08(w, c, rep)
				if len(rep.Violations) > 0 {
					return true, rep.Violations[0].Key + " :: " + rep.Violations[0].Detail
				}
				return false, "backend received the request rewritten as specified"
			}
		}
	}
	return false, "unknown case"
}

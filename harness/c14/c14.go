// Package c14: per-source independence of the rate limiter. The explored state is
// the product of the shared limiter and one "solo shadow" per source (a second
// real limiter that sees only that source's requests at the same instants).
package c14

import (
	"fmt"
	"net/http"
	"net/http/httptest"
	"sort"
	"strings"
	"time"

	"github.com/vulcand/oxy/v2/internal/holsterv4/clock"
	"github.com/vulcand/oxy/v2/ratelimit"
	"github.com/vulcand/oxy/v2/utils"
	"github.com/vulcand/oxy/v2/zverif/lib"
)

var sources = []string{"a", "b", "c"}

const (
	period = time.Second
	avg    = 1
	burst  = 2
	ttlSec = 11 // 10*floor(period)+1
	// the "long" rate a request may name when the limiter extracts rates per request: same sustained rate, TTL 31s
	longPeriod = 3 * time.Second
	longAvg    = 3
	longTTLSec = 31
)

type sys struct {
	varRates bool // the limiter is built with ExtractRates: every request names its own rate set (and thereby its TTL)
	capacity int
	shared   *ratelimit.TokenLimiter
	shadow   map[string]*ratelimit.TokenLimiter
	served   int
	// reference expiry (unix seconds) of every source the shared limiter should be tracking
	expiry map[string]int64
}

func extractor() utils.SourceExtractor {
	return utils.ExtractorFunc(func(r *http.Request) (string, int64, error) {
		var n int64
		fmt.Sscan(r.Header.Get("Amount"), &n)
		return r.Header.Get("Source"), n, nil
	})
}

func (s *sys) newLimiter(capacity int) *ratelimit.TokenLimiter {
	rs := ratelimit.NewRateSet()
	rs.Add(period, avg, burst)
	var opts []ratelimit.TokenLimiterOption
	if capacity > 0 {
		opts = append(opts, ratelimit.Capacity(capacity))
	}
	if s.varRates {
		// the extractor hands out two long-lived, shared rate sets (one per "plan"), as a real one would
		shortSet, longSet := ratelimit.NewRateSet(), ratelimit.NewRateSet()
		shortSet.Add(period, avg, burst)
		longSet.Add(longPeriod, longAvg, burst)
		opts = append(opts, ratelimit.ExtractRates(ratelimit.RateExtractorFunc(func(r *http.Request) (*ratelimit.RateSet, error) {
			switch r.Header.Get("Rate") {
			case "long":
				return longSet, nil
			case "none":
				return nil, nil // "no particular rates for this one": the library does not expect it and the request panics
			}
			return shortSet, nil
		})))
	}
	tl, err := ratelimit.New(http.HandlerFunc(func(w http.ResponseWriter, r *http.Request) {
		s.served++
		w.WriteHeader(200)
	}), extractor(), rs, opts...)
	if err != nil {
		panic(err)
	}
	return tl
}

var base = clock.Date(2012, 3, 4, 5, 6, 7, 300_000_000, clock.UTC)

func newSys(capacity int, varRates bool) *sys {
	clock.Freeze(base)
	s := &sys{capacity: capacity, varRates: varRates, shadow: map[string]*ratelimit.TokenLimiter{}, expiry: map[string]int64{}}
	s.shared = s.newLimiter(capacity)
	for _, src := range sources {
		s.shadow[src] = s.newLimiter(0)
	}
	return s
}

func (s *sys) do(tl *ratelimit.TokenLimiter, src string, amount int64, rate string) (out string) {
	defer func() {
		if p := recover(); p != nil {
			out = "panic" // net/http recovers a panicking request and carries on serving the others
		}
	}()
	before := s.served
	rec := httptest.NewRecorder()
	req := httptest.NewRequest("GET", "http://x/", nil)
	req.Header.Set("Source", src)
	req.Header.Set("Amount", fmt.Sprint(amount))
	req.Header.Set("Rate", rate)
	tl.ServeHTTP(rec, req)
	return fmt.Sprintf("%d/%s/%v", rec.Code, rec.Header().Get("X-Retry-In"), s.served > before)
}

// tracked returns the sources the shared limiter currently remembers (private state).
func (s *sys) tracked() ([]string, bool) {
	f := lib.Field(s.shared, "bucketSets", "elements")
	if !f.IsValid() {
		return nil, false
	}
	var out []string
	for _, k := range f.MapKeys() {
		out = append(out, k.String())
	}
	sort.Strings(out)
	return out, true
}

type opDesc struct {
	kind   int
	src    string
	amount int64
	d      time.Duration
	rate   string
}

// alphabetVar: requests name their rate set; a refresh with the short rate SHORTENS the lifetime of an entry.
func alphabetVar() ([]string, []opDesc) {
	var names []string
	var descs []opDesc
	for _, x := range []struct{ src, rate string }{{"a", "short"}, {"a", "long"}, {"b", "short"}, {"b", "long"}, {"c", "short"}} {
		names = append(names, fmt.Sprintf("Req(%s,1,%s)", x.src, x.rate))
		descs = append(descs, opDesc{0, x.src, 1, 0, x.rate})
	}
	for _, d := range []time.Duration{time.Second, 12 * time.Second} {
		names = append(names, fmt.Sprintf("Advance(%v)", d))
		descs = append(descs, opDesc{1, "", 0, d, ""})
	}
	// a request of b that FAILS inside the limiter (its rate extractor returns no set at all and the request panics;
	// the server recovers it): a matter of that request only, every other source's decisions go on as before
	names = append(names, "ReqFailing(b,1,extractor-returns-no-set)")
	descs = append(descs, opDesc{2, "b", 1, 0, "none"})
	return names, descs
}

func alphabet() ([]string, []opDesc) {
	var names []string
	var descs []opDesc
	for _, src := range sources {
		names = append(names, fmt.Sprintf("Req(%s,1)", src))
		descs = append(descs, opDesc{0, src, 1, 0, ""})
	}
	for _, d := range []time.Duration{time.Second, 500 * time.Millisecond, 10500 * time.Millisecond, 12 * time.Second} {
		names = append(names, fmt.Sprintf("Advance(%v)", d))
		descs = append(descs, opDesc{1, "", 0, d, ""})
	}
	names = append(names, "Req(a,2)")
	descs = append(descs, opDesc{0, "a", 2, 0, ""})
	// larger than the burst: refused with an error (not a 429) - and, like every request, a matter of its own source only
	names = append(names, "Req(c,3)")
	descs = append(descs, opDesc{0, "c", 3, 0, ""})
	return names, descs
}

// step applies a request to the shared limiter and the source's shadow and
// evaluates the independence oracle. Returns the observation and a violation (key, detail) if any.
func (s *sys) step(src string, amount int64, rate string) (string, string, string) {
	now := clock.Now().Unix()
	before, ok := s.tracked()
	if !ok {
		return "", "C14:INTERNAL", "cannot read the limiter's tracked sources (private field layout changed)"
	}
	// reference: own entry expired => the source starts afresh (its shadow expires by itself in the same way)
	selfLive := false
	if e, tr := s.expiry[src]; tr {
		if e <= now {
			delete(s.expiry, src)
		} else {
			selfLive = true
		}
	}
	capacity := s.capacity
	if capacity == 0 {
		capacity = ratelimit.DefaultCapacity
	}
	needEvict := !selfLive && len(s.expiry) >= capacity
	got := s.do(s.shared, src, amount, rate)
	after, _ := s.tracked()
	afterSet := map[string]bool{}
	for _, k := range after {
		afterSet[k] = true
	}
	var removed []string
	for _, k := range before {
		if !afterSet[k] && k != src {
			removed = append(removed, k)
		}
	}
	obs := fmt.Sprintf("%s tracked=%v", got, after)
	if !afterSet[src] {
		return obs, "C14:source-not-tracked-after-request", fmt.Sprintf("source %s is not remembered right after its own request (tracked %v)", src, after)
	}
	if needEvict {
		if len(removed) != 1 {
			return obs, "C14:eviction-count", fmt.Sprintf("capacity %d exceeded by %s: %d sources forgotten (%v), want exactly one", capacity, src, len(removed), removed)
		}
		v := removed[0]
		// admissible victims: an expired entry, else any entry with the minimal expiry
		var minE int64 = 1 << 62
		anyExpired := false
		for k, e := range s.expiry {
			_ = k
			if e < minE {
				minE = e
			}
			if e <= now {
				anyExpired = true
			}
		}
		ev := s.expiry[v]
		if !(ev <= now || (!anyExpired && ev == minE)) {
			return obs, "C14:wrong-eviction-victim", fmt.Sprintf("capacity %d exceeded by %s at t=%d: %s (expiry %d) was forgotten; reference expiries %v", capacity, src, now, v, ev, s.expiry)
		}
		delete(s.expiry, v)
		s.shadow[v] = s.newLimiter(0) // the victim starts afresh
	} else if len(removed) != 0 {
		return obs, "C14:spurious-forget", fmt.Sprintf("within capacity %d, request from %s made the limiter forget %v", capacity, src, removed)
	}
	ttl := ttlSec
	if s.varRates && rate == "long" {
		ttl = longTTLSec
	}
	s.expiry[src] = clock.Now().Add(time.Duration(ttl) * time.Second).Unix()
	want := s.do(s.shadow[src], src, amount, rate)
	if got != want {
		return obs, "C14:decision-depends-on-other-sources", fmt.Sprintf("source %s amount %d: shared limiter answered %s, the same source alone gets %s", src, amount, got, want)
	}
	return obs, "", ""
}

func model(capacity, depth int, varRates bool) *lib.Model[*sys] {
	names, descs := alphabet()
	name := fmt.Sprintf("independence/capacity=%d", capacity)
	if varRates {
		names, descs = alphabetVar()
		name += "/per-request-rates"
	}
	m := &lib.Model[*sys]{Name: name, Ops: names, MaxDepth: depth, Deadline: lib.Deadline}
	m.New = func() *sys { return newSys(capacity, varRates) }
	m.Apply = func(s *sys, op int) string {
		d := descs[op]
		if d.kind == 1 {
			clock.Advance(d.d)
			return ""
		}
		if d.kind == 2 {
			got := s.do(s.shared, d.src, d.amount, d.rate)
			if got != "panic" {
				// the library copes with it: an ordinary request then (the same rate names the same set for the shadow)
				s.do(s.shadow[d.src], d.src, d.amount, d.rate)
				return got + " (no panic)"
			}
			if held := lib.HeldLocks(s.shared); len(held) > 0 {
				return got + " !!C14:limiter-left-locked-by-a-failed-request!!" + fmt.Sprintf("a request of source %s panicked inside the limiter and left its lock(s) %v held: no request of ANY source gets a decision from now on", d.src, held)
			}
			return got
		}
		obs, key, detail := s.step(d.src, d.amount, d.rate)
		if key != "" {
			return obs + " !!" + key + "!!" + detail
		}
		return obs
	}
	m.Key = func(s *sys) string {
		now := clock.Now().UTC()
		dm := lib.Dumper{Now: now}
		var e []string
		for k, v := range s.expiry {
			e = append(e, fmt.Sprintf("%s=%d", k, v))
		}
		sort.Strings(e)
		return dm.Dump(s.shared, s.shadow["a"], s.shadow["b"], s.shadow["c"]) + fmt.Sprintf("|%d|%v", now.UnixNano(), e)
	}
	m.OnTransition = func(s *sys, hist []int, obs []string, rep *lib.Report) {
		o := obs[len(obs)-1]
		if descs[hist[len(hist)-1]].kind == 1 {
			return
		}
		if strings.HasPrefix(o, "panic") {
			rep.Count("requests_that_panicked_inside_the_limiter")
		}
		rep.Count("requests")
		if varRates {
			rep.Count("requests_naming_their_rate")
		}
		if strings.HasPrefix(o, "429") {
			rep.Count("rejections")
		}
		if strings.HasPrefix(o, "500") {
			rep.Count("oversized_requests_refused")
		}
		if n := len(s.expiry); n >= 2 {
			rep.Count("requests_with_several_tracked_sources")
		}
		if i := strings.Index(o, " !!"); i >= 0 {
			p := strings.SplitN(o[i+3:], "!!", 2)
			if p[0] == "C14:INTERNAL" {
				rep.DistrustF("%s", p[1])
				return
			}
			vk := fmt.Sprintf("%s:capacity=%d", p[0], capacity)
			if varRates {
				vk += ":per-request-rates"
			}
			rep.Violate(vk, p[1],
				map[string]any{"engine": "xstate", "part": "c14", "capacity": capacity, "var_rates": varRates, "ops": m.OpNames(hist), "observations": obs})
		}
	}
	return m
}

// evictions are counted by looking at consecutive observations in Check (cheap).
func Run(tier string, sh lib.Shard, rep *lib.Report) {
	depth := 6
	if tier == "thorough" {
		depth = 7
	}
	rep.Bounds["history_depth"] = depth
	rep.Bounds["capacities"] = []int{1, 2, 3, 0}
	rep.Bounds["rate"] = "1s: average 1, burst 2 (TTL 11s); per-request-rates variants (capacity 1, 2): each request names 1s:1/2 (TTL 11s) or 3s:3/2 (TTL 31s)"
	rep.Rule = "BFS over all histories (exact keys, depth-bounded) of Req(source in {a,b,c}, amount)/Advance on a shared real TokenLimiter and one solo-shadow real limiter per source; every decision must equal the shadow's; beyond capacity exactly one admissible victim (expired, else minimal expiry; read from private state) is forgotten and only its shadow is reset; non-trivial = requests made while several sources are tracked"
	rep.Require("requests", "rejections", "requests_with_several_tracked_sources", "evictions_observed", "per_request_rate_models", "oversized_requests_refused", "requests_that_panicked_inside_the_limiter")
	for _, capacity := range []int{1, 2, 3, 0} {
		m := model(capacity, depth, false)
		m.Shard, m.ShardLevel = sh, 2
		evictionCounter(m, rep)
		r := m.Run(rep)
		rep.Sample(4, map[string]any{"model": m.Name, "result": r.Describe()})
	}
	// per-request rate sets (ExtractRates): the same source's entry lifetime grows AND shrinks between requests
	for _, capacity := range []int{1, 2} {
		m := model(capacity, depth, true)
		m.Shard, m.ShardLevel = sh, 2
		evictionCounter(m, rep)
		r := m.Run(rep)
		rep.Sample(4, map[string]any{"model": m.Name, "result": r.Describe()})
		rep.Count("per_request_rate_models")
	}
	rep.Nontrivial = rep.Counters["requests_with_several_tracked_sources"]
}

func evictionCounter(m *lib.Model[*sys], rep *lib.Report) {
	inner := m.OnTransition
	m.OnTransition = func(s *sys, hist []int, obs []string, rep *lib.Report) {
		inner(s, hist, obs, rep)
		if n := len(obs); n >= 2 {
			prev, cur := trackedOf(obs[:n-1]), trackedOf(obs[n-1:])
			if cur != "" && prev != "" {
				for _, k := range strings.Fields(strings.Trim(prev, "[]")) {
					if !strings.Contains(cur, k) {
						rep.Count("evictions_observed")
					}
				}
			}
		}
	}
}

func trackedOf(obs []string) string {
	for i := len(obs) - 1; i >= 0; i-- {
		if j := strings.Index(obs[i], "tracked="); j >= 0 {
			s := obs[i][j+8:]
			if k := strings.Index(s, "]"); k >= 0 {
				return s[:k+1]
			}
		}
	}
	return ""
}

func Replay(rp map[string]any) (bool, string) {
	m := model(int(rp["capacity"].(float64)), 0, rp["var_rates"] == true)
	hist, err := m.ParseOps(rp["ops"])
	if err != nil {
		return false, err.Error()
	}
	return m.ReplayHistory(hist, lib.NewReport("C14", "replay"))
}

// Package buf: the buffer middleware. c06.go: the handler receives the exact
// request on every attempt; c07.go: exactly one response, the final attempt's,
// after bounded retries; c15.go: size limits and temporary files.
package buf

import (
	"bytes"
	"errors"
	"fmt"
	"io"
	"net/http"
	"net/url"
	"sort"
	"strings"

	"github.com/vulcand/oxy/v2/buffer"
	"github.com/vulcand/oxy/v2/zverif/lib"
)

func bodyOf(n int) []byte {
	b := make([]byte, n)
	for i := range b {
		b[i] = byte('a' + (i*7+i/13)%26)
	}
	return b
}

type attemptScript struct {
	consume  int // 0 none, 1 half, 2 all
	mutation int
}

var mutationNames = []string{"none", "header-set", "header-append", "header-slice-write", "url-path", "url-user", "method", "header-delete"}

func mutate(r *http.Request, m int) {
	switch m {
	case 1:
		r.Header.Set("X-Single", "mutated")
	case 2:
		r.Header.Add("X-Multi", "extra")
	case 3:
		if v := r.Header["X-Multi"]; len(v) > 0 {
			v[0] = "overwritten-in-place"
		}
	case 4:
		r.URL.Path = "/mutated"
		r.URL.RawQuery = "m=1"
	case 5:
		r.URL.User = url.User("intruder")
		r.URL.Host = "elsewhere"
	case 6:
		r.Method = "DELETE"
	case 7:
		r.Header.Del("X-Single")
	}
}

type seenReq struct {
	method, url   string
	header        string
	contentLength int64
	te            string
	teHeader      string
	bodyPrefix    []byte
	readErr       error
}

func headerString(h http.Header) string {
	var ks []string
	for k := range h {
		ks = append(ks, k)
	}
	sort.Strings(ks)
	var sb strings.Builder
	for _, k := range ks {
		fmt.Fprintf(&sb, "%s=%q;", k, h[k])
	}
	return sb.String()
}

var headerSets = [][][2]string{
	{{"X-Single", "one"}},
	{{"X-Single", "one"}, {"X-Multi", "a"}, {"X-Multi", "b"}, {"Accept", "*/*"}, {"Authorization", "Bearer s3cr3t"}, {"Proxy-Authorization", "Basic eHl6"}},
	{{"x-single", "one"}, {"X-MULTI", "a"}, {"x-Multi", "b"}, {"Cookie", "k=v; k2=v2"}},
	// what clients that upload send: an expectation, a second Cookie line, a conditional
	{{"Expect", "100-continue"}, {"Cookie", "a=1"}, {"Cookie", "b=2"}, {"If-Match", "\"v1\""}, {"Te", "trailers"}},
}

type c06case struct {
	mem, size, chunk int
	method           string
	hs               int
	k                int // retry expression Attempts() < k
	scripts          []attemptScript
}

// attempts: the predicate Attempts() < k allows k invocations, the built-in cap DefaultMaxRetryAttempts+1.
func (c c06case) attempts() int {
	if c.k > buffer.DefaultMaxRetryAttempts+1 {
		return buffer.DefaultMaxRetryAttempts + 1
	}
	return c.k
}

func (c c06case) String() string {
	return fmt.Sprintf("mem=%d size=%d chunk=%d method=%s headers#%d retry=Attempts()<%d scripts=%v", c.mem, c.size, c.chunk, c.method, c.hs, c.k, c.scripts)
}

// One long-lived Buffer per (memory threshold, retry depth, verbose) serves every case with that configuration,
// one after the other: whatever an exchange leaves behind in the middleware (a reused object, a cached value)
// meets the next case's oracle. The handler behind it is swapped per case.
type brokenReader struct{}

func (brokenReader) Read([]byte) (int, error) { return 0, io.ErrUnexpectedEOF }

type c06instance struct {
	b   *buffer.Buffer
	cur http.Handler
}

var c06instances = map[string]*c06instance{}

// position of the running case (recorded with a violation so that a replay can re-run the same prefix)
var c06pos struct {
	tier  string
	shard lib.Shard
	index int
}

func c06instanceFor(c c06case) (*c06instance, error) {
	key := fmt.Sprintf("%d/%d/%v", c.mem, c.k, verboseRun)
	if in, ok := c06instances[key]; ok {
		return in, nil
	}
	in := &c06instance{}
	opts := []buffer.Option{buffer.MemRequestBodyBytes(int64(c.mem)), buffer.Retry(fmt.Sprintf("Attempts() < %d", c.k))}
	if c.mem == 0 {
		opts = opts[1:]
	}
	if verboseRun {
		opts = append(opts, buffer.Verbose(true), buffer.Logger(lib.FormatLogger{}))
	}
	b, err := buffer.New(http.HandlerFunc(func(w http.ResponseWriter, r *http.Request) { in.cur.ServeHTTP(w, r) }), opts...)
	if err != nil {
		return nil, err
	}
	in.b = b
	c06instances[key] = in
	return in, nil
}

func runC06(c c06case, rep *lib.Report) {
	body := bodyOf(c.size)
	raw := lib.RawRequest(c.method, "/p/a%20b?x=1&y=%2F", headerSets[c.hs], body, c.chunk)
	req, err := lib.ParseRequest(raw)
	if err != nil {
		rep.DistrustF("C06 harness produced an unparsable request: %v", err)
		return
	}
	if c.chunk == -1 {
		// the framing of a streamed HTTP/2 upload: length unknown (-1), no transfer-encoding, body read until EOF
		req.ContentLength, req.TransferEncoding = -1, nil
		req.Header.Del("Content-Length")
		req.Proto, req.ProtoMajor, req.ProtoMinor = "HTTP/2.0", 2, 0
		req.Body = io.NopCloser(bytes.NewReader(body))
		rep.Count("requests_of_unknown_length_without_chunking")
	}
	if c.chunk == -3 && c.size > 0 {
		// an in-process request whose length is not known: ContentLength 0 with a Body that is NOT empty (what
		// http.NewRequest builds over a pipe, a gzip reader or any wrapped reader; a literal &http.Request{Body: ...})
		req.ContentLength, req.TransferEncoding = 0, nil
		req.Header.Del("Content-Length")
		req.Body = io.NopCloser(bytes.NewReader(body))
		rep.Count("requests_with_length_zero_and_a_body")
	}
	// what the client sent, as net/http presents it before the buffer touches it
	want := seenReq{method: req.Method, url: req.URL.String(), contentLength: int64(c.size)}
	wh := req.Header.Clone()
	wh.Del("Transfer-Encoding")
	want.header = headerString(wh)
	var seen []seenReq
	attempt := 0
	h := http.HandlerFunc(func(w http.ResponseWriter, r *http.Request) {
		sc := attemptScript{2, 0}
		if attempt < len(c.scripts) {
			sc = c.scripts[attempt]
		}
		last := attempt >= c.attempts()-1
		attempt++
		s := seenReq{method: r.Method, url: r.URL.String(), contentLength: r.ContentLength, te: strings.Join(r.TransferEncoding, ","), teHeader: r.Header.Get("Transfer-Encoding")}
		hh := r.Header.Clone()
		hh.Del("Transfer-Encoding")
		s.header = headerString(hh)
		n := c.size
		if !last {
			switch sc.consume {
			case 0:
				n = 0
			case 1:
				n = c.size / 2
			}
		}
		if last {
			s.bodyPrefix, s.readErr = io.ReadAll(r.Body)
		} else {
			if sc.consume == 4 {
				// io.Copy into a destination that refuses its very first Write (a backend connection that has been
				// reset): whatever the body's WriteTo took out of the buffered request before it noticed is gone for
				// this attempt - and must be there again for the next
				io.Copy(refusingWriter{}, r.Body)
				s.bodyPrefix = nil
			} else if sc.consume == 3 {
				// the whole body pulled with io.Copy - which prefers the reader's WriteTo over Read
				var sink bytes.Buffer
				_, s.readErr = io.Copy(&sink, r.Body)
				s.bodyPrefix = sink.Bytes()
			} else {
				s.bodyPrefix = make([]byte, n)
				_, s.readErr = io.ReadFull(r.Body, s.bodyPrefix)
			}
		}
		seen = append(seen, s)
		if !last {
			// a handler that is done with the request closes its body (http.Transport and the forwarder always do)
			r.Body.Close()
			mutate(r, sc.mutation)
			w.WriteHeader(502)
			w.Write([]byte("failed attempt"))
			return
		}
		w.WriteHeader(200)
		w.Write([]byte("ok"))
	})
	in, err := c06instanceFor(c)
	if err != nil {
		rep.DistrustF("buffer.New: %v", err)
		return
	}
	if c06pos.index%7 == 3 {
		// before this case the same instance sees an upload that breaks midway (the client goes away after half of
		// the declared body): whatever that leaves behind must not reach the case that follows
		in.cur = http.HandlerFunc(func(w http.ResponseWriter, r *http.Request) {
			io.Copy(io.Discard, r.Body)
			w.WriteHeader(200)
		})
		br, _ := lib.ParseRequest(lib.RawRequest("POST", "/broken-upload", nil, []byte("0123456789"), 0))
		br.Body = io.NopCloser(io.MultiReader(strings.NewReader("01234"), brokenReader{}))
		if r0 := lib.Serve(in.b, br); r0.Panic != nil {
			rep.Violate("C06:panic:broken-upload", fmt.Sprintf("an upload that breaks midway made the buffer panic: %v", r0.Panic), map[string]any{"engine": "enum", "part": "c06", "case": c.String(), "verbose": verboseRun,
				"tier": c06pos.tier, "shard": fmt.Sprintf("%d/%d", c06pos.shard.I, c06pos.shard.N), "index": c06pos.index})
		}
		rep.Count("uploads_broken_midway")
	}
	in.cur = h
	b := in.b
	rec := lib.Serve(b, req)
	rep.Evaluations++
	what := func() map[string]any {
		return map[string]any{"engine": "enum", "part": "c06", "mem": c.mem, "size": c.size, "chunk": c.chunk, "method": c.method, "headers": c.hs, "k": c.k, "scripts": fmt.Sprint(c.scripts), "case": c.String(), "verbose": verboseRun,
			"tier": c06pos.tier, "shard": fmt.Sprintf("%d/%d", c06pos.shard.I, c06pos.shard.N), "index": c06pos.index}
	}
	framing := "content-length"
	if c.chunk > 0 {
		framing = "chunked"
	} else if c.chunk == -3 {
		framing = "length-zero-with-a-body"
	} else if c.chunk < 0 {
		framing = "unknown-length"
	}
	if rec.Panic != nil {
		rep.Violate("C06:panic:"+framing, fmt.Sprintf("%v: panic %v", c, rec.Panic), what())
		return
	}
	if len(seen) != c.attempts() {
		rep.Violate("C06:attempt-count", fmt.Sprintf("%v: handler invoked %d times, want %d (status %d)", c, len(seen), c.attempts(), rec.Code), what())
		return
	}
	if c.size > c.mem && c.mem > 0 {
		rep.Count("requests_spilled_to_disk")
	}
	if c.k > 1 {
		rep.Count("cases_with_retries")
	}
	if c.attempts() == buffer.DefaultMaxRetryAttempts+1 {
		rep.Count("cases_retried_up_to_the_built_in_cap")
	}
	if c.k > 1 || (c.size > c.mem && c.mem > 0) {
		rep.Nontrivial++ // each case is distinct (one point of the product); counted once
	}
	for i, s := range seen {
		pre := fmt.Sprintf("%v: attempt %d ", c, i+1)
		switch {
		case s.method != want.method:
			rep.Violate("C06:method-differs", pre+fmt.Sprintf("saw method %s, client sent %s", s.method, want.method), what())
		case s.url != want.url:
			rep.Violate("C06:url-differs", pre+fmt.Sprintf("saw URL %s, client sent %s", s.url, want.url), what())
		case s.header != want.header:
			rep.Violate("C06:headers-differ", pre+fmt.Sprintf("saw headers %s, client sent %s", s.header, want.header), what())
		case s.contentLength != want.contentLength:
			rep.Violate("C06:content-length-differs:"+framing, pre+fmt.Sprintf("ContentLength %d, true body length %d", s.contentLength, want.contentLength), what())
		case s.te != "" || s.teHeader != "":
			rep.Violate("C06:transfer-encoding-left:"+framing, pre+fmt.Sprintf("TransferEncoding %q / header %q still announce chunking", s.te, s.teHeader), what())
		case s.readErr != nil:
			rep.Violate("C06:body-short:"+framing, pre+fmt.Sprintf("reading the body failed: %v (got %d bytes of %d)", s.readErr, len(s.bodyPrefix), c.size), what())
		case !bytes.Equal(s.bodyPrefix, body[:len(s.bodyPrefix)]):
			rep.Violate("C06:body-differs:"+framing, pre+fmt.Sprintf("body bytes differ from what the client sent (first %d bytes read)", len(s.bodyPrefix)), what())
		case i == len(seen)-1 && len(s.bodyPrefix) != c.size:
			rep.Violate("C06:body-length:"+framing, pre+fmt.Sprintf("complete read returned %d bytes, client sent %d", len(s.bodyPrefix), c.size), what())
		default:
			continue
		}
		return
	}
}

type refusingWriter struct{}

func (refusingWriter) Write(p []byte) (int, error) { return 0, errors.New("connection reset by peer") }

func c06cases(tier string) []c06case {
	var out []c06case
	mems := []int{8, 64}
	var scripts1 []attemptScript
	for cons := 0; cons < 5; cons++ {
		for m := range mutationNames {
			if cons >= 3 && m > 1 {
				continue // consumption through io.Copy/WriteTo: with the first two mutations only
			}
			scripts1 = append(scripts1, attemptScript{cons, m})
		}
	}
	for _, mem := range mems {
		for _, size := range []int{0, 1, mem - 1, mem, mem + 1, 3 * mem} {
			for _, chunk := range []int{0, 1, 7, 1 << 20, -1, -3} {
				for _, method := range []string{"POST", "GET", "PUT"} {
					for hs := range headerSets {
						out = append(out, c06case{mem, size, chunk, method, hs, 1, nil})
						for _, s1 := range scripts1 {
							out = append(out, c06case{mem, size, chunk, method, hs, 2, []attemptScript{s1}})
						}
						if method == "POST" || tier == "thorough" {
							for i, s1 := range scripts1 {
								for j, s2 := range scripts1 {
									if tier != "thorough" && (i*len(scripts1)+j)%5 != hs {
										continue
									}
									out = append(out, c06case{mem, size, chunk, method, hs, 3, []attemptScript{s1, s2}})
								}
							}
						}
					}
				}
			}
		}
	}
	// retried up to (and beyond what) the built-in cap (allows): predicates Attempts() < {10, 11, 12, 13}, every attempt
	// but the last one fails after consuming, closing and mutating as its script says
	for _, mem := range mems {
		for _, size := range []int{mem - 1, mem + 1, 3 * mem} {
			for _, chunk := range []int{0, 7, -1} {
				for hs := range headerSets {
					for _, k := range []int{10, 11, 12, 13} {
						var scs []attemptScript
						for i := 0; i < k; i++ {
							scs = append(scs, scripts1[(i*5+hs+size)%len(scripts1)])
						}
						out = append(out, c06case{mem, size, chunk, "POST", hs, k, scs})
					}
				}
			}
		}
	}
	// default 1 MiB threshold: bodies around it (multi-megabyte in the thorough tier)
	sizes := []int{1<<20 - 1, 1 << 20, 1<<20 + 1}
	if tier == "thorough" {
		sizes = append(sizes, 2<<20+1, 5<<20)
	}
	for _, size := range sizes {
		for _, chunk := range []int{0, 4096, 1 << 20} {
			out = append(out, c06case{0, size, chunk, "POST", 1, 1, nil})
			out = append(out, c06case{0, size, chunk, "POST", 1, 3, []attemptScript{{1, 3}, {0, 4}}})
		}
	}
	return out
}

func RunC06(tier string, sh lib.Shard, rep *lib.Report) {
	cases := c06cases(tier)
	rep.Bounds["cases"] = len(cases)
	rep.Rule = "full product memory threshold {8,64,default 1MiB} x body length {0,1,mem-1,mem,mem+1,3mem, ~1MiB(+)} x framing {Content-Length, chunked 1/7/whole, unknown length without chunking (HTTP/2 stream), ContentLength 0 over a non-empty body (in-process request of unknown length)} x method x header set x retry depth {1,2,3; 10..13 around the built-in cap of 11 attempts} x per-failed-attempt script (bytes consumed {0, half, all by Read, all by io.Copy/WriteTo, io.Copy into a writer that refuses its first Write} x 8 request mutations, the request body closed by every failed attempt); request parsed by http.ReadRequest from raw bytes, real buffer.ServeHTTP on long-lived Buffer instances (one per threshold x retry depth, serving all its cases in sequence); every invocation's method/URL/headers/ContentLength/TransferEncoding/body compared with the client's original; every fifth case again with Verbose(true) and a formatting logger; non-trivial = cases with at least one retry or a spilled body"
	rep.Require("requests_spilled_to_disk", "requests_with_length_zero_and_a_body", "cases_with_retries", "cases_retried_up_to_the_built_in_cap", "cases_rerun_verbose", "uploads_broken_midway")
	for i, c := range cases {
		if !sh.Mine(i) {
			continue
		}
		if lib.Expired() {
			rep.Exhaustive = false
			break
		}
		c06pos.tier, c06pos.shard, c06pos.index = tier, sh, i
		runC06(c, rep)
		if i%9973 == 0 {
			rep.Sample(4, c.String())
		}
		if i%5 == 0 {
			// the same case with Verbose(true) and a logger that formats its arguments (request dumps)
			verboseRun = true
			runC06(c, rep)
			verboseRun = false
			rep.Count("cases_rerun_verbose")
		}
	}
}

func ReplayC06(rp map[string]any) (bool, string) {
	want, _ := rp["case"].(string)
	if idx, ok := rp["index"].(float64); ok {
		// re-run, on fresh long-lived instances, exactly the cases this worker had run up to the failing one
		tier, _ := rp["tier"].(string)
		shs, _ := rp["shard"].(string)
		sh := lib.ParseShard(shs)
		c06instances = map[string]*c06instance{}
		key, _ := rp["key"].(string)
		var last *lib.Report
		for i, c := range c06cases(tier) {
			if i > int(idx) {
				break
			}
			if !sh.Mine(i) {
				continue
			}
			last = lib.NewReport("C06", "replay")
			c06pos.tier, c06pos.shard, c06pos.index = tier, sh, i
			verboseRun = false
			runC06(c, last)
			if i%5 == 0 {
				vr := lib.NewReport("C06", "replay")
				verboseRun = true
				runC06(c, vr)
				verboseRun = false
				if i == int(idx) && rp["verbose"] == true {
					last = vr
				}
			}
		}
		if last != nil {
			for _, v := range last.Violations {
				if v.Key == key {
					return true, v.Key + " :: " + v.Detail
				}
			}
			if len(last.Violations) > 0 {
				return true, last.Violations[0].Key + " :: " + last.Violations[0].Detail
			}
		}
		return false, "every attempt saw the client's exact request"
	}
	for _, tier := range []string{"quick", "thorough"} {
		for _, c := range c06cases(tier) {
			if c.String() == want {
				rep := lib.NewReport("C06", "replay")
				verboseRun = rp["verbose"] == true
				runC06(c, rep)
				verboseRun = false
				if len(rep.Violations) > 0 {
					return true, rep.Violations[0].Key + " :: " + rep.Violations[0].Detail
				}
				return false, "every attempt saw the client's exact request"
			}
		}
	}
	return false, "unknown case"
}

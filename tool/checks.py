"""Table of checks: which worker parts decide which property, at which level.
tool/mkmanifest.py derives MANIFEST.json from it."""

ENGINES = [
    dict(name="sched", path="/verif/shim/vrt/vrt.go + /verif/harness/sched/explore.go", serves_properties=["C04"],
         kind_free_text="controlled cooperative scheduler (sync import rewritten to a shim through go build -overlay) + stateless preemption-bounded DFS over thread interleavings of the real code; hand-off invisible to the race detector so -race reports real unsynchronised accesses per schedule"),
    dict(name="xstate", path="/verif/harness/lib/xstate.go", serves_properties=["C17"],
         kind_free_text="explicit-state breadth-first search over operation histories of real oxy objects under a frozen clock; successor = replay on a fresh instance + one operation; state key = reflective deep dump + oracle monitor"),
]

NOTES = ("All checks run the real oxy code (no separate model): exhaustive enumeration of operation histories, thread "
         "schedules or inputs/faults within the bounds stated in each evidence file. See DESIGN.md.")

ALL = ["C%02d" % i for i in range(1, 21)]

CHECKS = {
    "C17": dict(
        level="model_checking", engine="xstate", design_ref="DESIGN.md §5 C17",
        technique="explicit-state BFS over all operation histories (bounded depth, exact state keys) on the real RollingCounter/RatioCounter vs a timestamp-list reference; plus overlap scenarios: stateless DFS over all schedules (preemption-bounded or unbounded as stated) of 2-3 calls in flight on one instance, race build, the property's oracle at quiescence",
        text="Every history of Inc/Count/Advance up to the depth bound, for 120 (buckets, resolution, clock base) configurations, is executed on the real counter; in every reached state Count()/Ratio() must lie between the sums of the reference increments inside (N-1)r and N*r.",
        note="frozen clock, one instant per API call (A2); parameters limited to the listed alphabet (A4)",
        parts=[dict(bin="vh", part="c17", shards=16, budget=dict(quick=100, thorough=1500)),
           # overlap scenarios (E1, race build): 2-3 calls in flight on one instance, the property's oracle at quiescence
           dict(bin="vsched-race", part="ovl", shards=4, budget=dict(quick=100, thorough=1500))]),
}

CHECKS["C04"] = dict(
    level="model_checking", engine="sched", design_ref="DESIGN.md §5 C04",
    technique="stateless DFS over ALL thread interleavings (controlled scheduler at lock/yield points) of the real ConnLimiter vs an in-flight reference count; plus an exhaustive sweep of a wide source domain (every address of 10.0.0.0/14 in flight at the same time on one limiter, each must be admitted)",
    text="All interleavings (no preemption bound) of 3 (quick) / 4 (thorough) request threads over sources {a,b}, limits {1,2} and every normal/panic handler pattern are executed on the real ConnLimiter; in-handler count <= limit, a 429 only when the source's in-flight reference count equals the limit, and after quiescence every source reaches exactly the full maximum again.",
    note="scheduling points = limiter lock acquisitions, in-handler yield, thread start/end; sequential consistency between points (A3); Unlock is not a point",
    parts=[dict(bin="vsched", part="c04", shards=16, budget=dict(quick=100, thorough=1500))])

CHECKS["C01"] = dict(
    level="model_checking", engine="xstate+sched", design_ref="DESIGN.md §5 C01",
    technique="explicit-state BFS to fixpoint over pool changes (accepted and refused) and selections on the real RoundRobin, windows from every state and across every refused operation + stateless DFS over all interleavings of concurrent selectors + one long run (one unchanged pool, every window of more than 2^32 iterator steps)",
    text="Every reachable (pool order, weights, iterator) state of the real balancer over 3-4 servers and the weight alphabet is visited; from each, the next W selections must hit server i exactly w_i/g times (so every window offset after every history of pool changes). Concurrent part: all interleavings of 2-4 selector threads; the combined completion-order sequence must satisfy the same counts.",
    note="weights limited to the alphabet plus a list of very unequal fixed pools (A4); sequential consistency between scheduling points (A3)",
    parts=[dict(bin="vh", part="c01", shards=16, gang=True, budget=dict(quick=100, thorough=1500)),
           dict(bin="vsched-race", part="c01s", shards=16, budget=dict(quick=100, thorough=1500)),
           # the long run: one unchanged pool, more than 2^32 iterator steps, every window checked on the way
           dict(bin="vh", part="c01long", shards=1, budget=dict(quick=200, thorough=1500))])

CHECKS["C02"] = dict(
    level="model_checking", engine="xstate+sched", design_ref="DESIGN.md §5 C02",
    technique="explicit-state BFS over add/update/remove/request histories on the real RoundRobin and Rebalancer vs an ordered-map reference + DFS over interleavings of administration racing with requests under the race detector; plus overlap scenarios: stateless DFS over all schedules (preemption-bounded or unbounded as stated) of 2-3 calls in flight on one instance, race build, the property's oracle at quiescence",
    text="All histories up to the depth bound over a URL alphabet with identity collisions (scheme/host/path/userinfo/query variants), weights {default,0,2}, passive and URL-rewriting handlers, with/without sticky cookies, through RoundRobin and through Rebalancer; in every state Servers()/ServerWeight() equal the reference incl. stored URL strings and a full rotation hits exactly the positive-weight members; empty/all-zero pools refuse repeatedly. Concurrent part: interval oracle for Remove/Upsert racing with requests.",
    note="pool size <= 3, depth-bounded histories (A4); sequential consistency between scheduling points, races reported by the detector (A3)",
    parts=[dict(bin="vh", part="c02", shards=16, budget=dict(quick=100, thorough=1500)),
           dict(bin="vsched-race", part="c02s", shards=16, budget=dict(quick=100, thorough=1500)),
           dict(bin="vsched-race", part="ovl", shards=4, budget=dict(quick=100, thorough=1500))])

CHECKS["C03"] = dict(
    level="model_checking", engine="xstate", design_ref="DESIGN.md §5 C03",
    technique="explicit-state BFS to fixpoint (relative-time state keys) plus exact-key depth-bounded BFS on the real TokenLimiter vs an exact-rational leaky-bucket debt monitor; plus overlap scenarios: stateless DFS over all schedules (preemption-bounded or unbounded as stated) of 2-3 calls in flight on one instance, race build, the property's oracle at quiescence",
    text="For each rate set (integral and non-integral time per token, burst up to 5x average, 2s period, multi-rate) and clock phase, every history of Req(amount)/Advance(d) over the alphabet is explored on the real limiter to a fixpoint of the relative-time state space (histories of unbounded length, incl. traffic sustained beyond the entry lifetime); the monitor debt D<=burst+1 is equivalent to the interval bound.",
    note="frozen clock, one instant per call (A2); translation invariance assumed for the relative keys and cross-checked by the exact-key search; one source (multi-source behaviour is C14)",
    parts=[dict(bin="vh", part="c03", shards=16, gang=True, budget=dict(quick=100, thorough=1500)),
           # "however the requests are timed": concurrent requests of one source at one instant (incl. first contact)
           dict(bin="vsched-race", part="c14s", shards=16, budget=dict(quick=100, thorough=1500)),
           dict(bin="vsched-race", part="ovl", shards=4, budget=dict(quick=100, thorough=1500))])
CHECKS["C13"] = dict(
    level="model_checking", engine="xstate", design_ref="DESIGN.md §5 C13",
    technique="same reachable-state graph as C03; differential continuation probes (real code against itself) from every reachable state; explicit-state BFS over histories in which one long-lived rate set is changed in place; plus overlap scenarios: stateless DFS over all schedules (preemption-bounded or unbounded as stated) of 2-3 calls in flight on one instance, race build, the property's oracle at quiescence",
    text="From every reachable limiter state and every rejected request q: probe outcomes after q (once and three times) equal those without q for every amount (nothing debited, also multi-rate); retry after exactly X-Retry-In is admitted; an idle source regains its burst after burst*(period/average); an over-burst request is refused with an error and no delay.",
    note="as C03",
    parts=[dict(bin="vh", part="c03", shards=16, gang=True, budget=dict(quick=100, thorough=1500)),
           # overlap scenarios (E1, race build): 2-3 calls in flight on one instance, the property's oracle at quiescence
           dict(bin="vsched-race", part="ovl", shards=4, budget=dict(quick=100, thorough=1500))])

CHECKS["C14"] = dict(
    level="model_checking", engine="xstate+sched", design_ref="DESIGN.md §5 C14",
    technique="explicit-state BFS over the product of the shared real TokenLimiter and per-source solo-shadow real limiters (differential oracle; histories include a request of another source that fails inside the limiter, with a held-lock oracle between calls) + DFS over all interleavings for the rate limiter and the connection limiter",
    text="Every history up to the depth bound of requests from sources {a,b,c} and clock advances, for capacities {1,2,3,default}: each decision must equal what the source gets alone; beyond capacity exactly one admissible victim is forgotten. Concurrent part: all interleavings of 3 threads/2 sources on the rate limiter (race detector on) and of the connection limiter (C04 harness: 429 iff the OWN source is at its limit).",
    note="one rate (1s:1/2), amounts {1,2}; eviction victim read reflectively from private state (exit 3, not a violation, if the layout changes)",
    parts=[dict(bin="vh", part="c14", shards=16, budget=dict(quick=100, thorough=1500)),
           dict(bin="vsched-race", part="c14s", shards=16, budget=dict(quick=100, thorough=1500)),
           dict(bin="vsched", part="c04", shards=16, budget=dict(quick=100, thorough=1500))])

CHECKS["C05"] = dict(
    level="model_checking", engine="xstate+sched", design_ref="DESIGN.md §5 C05",
    technique="explicit-state BFS over request/clock histories on the real CircuitBreaker (frozen clock, exact keys) with an observational monitor; DFS over interleavings of overlapping requests and a clock thread",
    text="All histories up to the depth bound of Req(code,latency)/Advance(d) for the product of fallback, recovery, check-period and condition values: from the observed trip instant T every request arriving in [T,T+fallback) is answered by the fallback without invoking the handler; every request in standby reaches the handler; observed state edges are only the legal ones. Concurrent part: overlapping in-flight requests and clock advances around a trip.",
    note="A2 (one instant per call; handler latency advances the clock); state observed through String()",
    parts=[dict(bin="vh", part="cb", shards=16, budget=dict(quick=240, thorough=1500)),
           dict(bin="vsched", part="cbs", shards=16, budget=dict(quick=100, thorough=1500))])
CHECKS["C12"] = dict(
    level="model_checking", engine="xstate+sched", design_ref="DESIGN.md §5 C12",
    technique="explicit-state BFS from prepared just-tripped states on the real CircuitBreaker; exact integer-arithmetic ramp reference",
    text="All histories up to the depth bound of requests (200/failing) and advances {recovery/8,/4,/2, recovery+eps, fallback} starting at the end of the fallback period: after every pass passed/(passed+refused) <= 0.5*elapsed/recovery, a refusal only if passing would reach the ramp (ties accepted), first request after the recovery period is passed and leaves standby or a new trip.",
    note="A2; recovery durations {2s,10s}",
    parts=[dict(bin="vh", part="cb", shards=16, budget=dict(quick=100, thorough=1500)),
           dict(bin="vsched", part="cbs", shards=16, budget=dict(quick=100, thorough=1500))])

CHECKS["C18"] = dict(
    level="model_checking", engine="enum+sched", design_ref="DESIGN.md §5 C18",
    technique="bounded-exhaustive program x history enumeration on the real CircuitBreaker (all histories up to a depth from fresh + De Bruijn covering runs) against a three-valued reference evaluator",
    text="Every generated condition expression (all atoms over the three metric functions and six comparisons, compounds with one and two connectives, with and without parentheses) x check period is run on the real breaker over every history up to the depth bound and over a sequence containing every operation window; each evaluation's trip decision must match the reference under the tightest and loosest window reading; OnTripped/OnStandby counts equal the observed transitions.",
    note="goroutines spawned by the breaker are queued and run deterministically (overlay); windows read as 9..10s / 50s..since-trip; quantile rank +-1",
    parts=[dict(bin="vsched", part="c18", shards=16, budget=dict(quick=100, thorough=1500)),
           dict(bin="vsched", part="cbs", shards=16, budget=dict(quick=100, thorough=1500))])

CHECKS["C09"] = dict(
    level="model_checking", engine="sched", design_ref="DESIGN.md §5 C09",
    technique="preemption-bounded stateless DFS over thread schedules of the real middlewares with the Go race detector as per-schedule oracle (scheduler hand-off invisible to the detector)",
    text="Ten harnesses (balancer, rebalancer, breaker, RTMetrics x2, token limiter, TTL map, connection limiter, tracer, full stack), each 2-4 threads of requests plus administration/inspection: every schedule with <= 2 (quick) / <= 3 (thorough, Unlock also a point) preemptions is executed in a -race build; any race report, deadlock or lost update is a violation.",
    note="A3; GOMAXPROCS=1 cooperative hand-off through norace code, so the detector sees only the program's real synchronisation",
    parts=[dict(bin="vsched-race", part="c09", shards=16, budget=dict(quick=150, thorough=1500))])

CHECKS["C10"] = dict(
    level="model_checking", engine="xstate", design_ref="DESIGN.md §5 C10",
    technique="explicit-state BFS to fixpoint on the real Rebalancer(RoundRobin) with scripted meters and a frozen clock; invariants per transition and bounded-liveness continuations from every reachable state; plus overlap scenarios: stateless DFS over all schedules (preemption-bounded or unbounded as stated) of 2-3 calls in flight on one instance, race build, the property's oracle at quiescence",
    text="Every reachable (membership, configured weights, effective weights, timer) state over rating vectors {0,0.4,1}^3, readiness, advances {backoff/2, backoff+eps}, Upsert/Remove with weights from the alphabet, back-off {1s,10s}: weights within [1,max(4096,configured)], adjustments at least one back-off apart, no outlier share increase, configured weights restored by every membership change; from every state a persistent outlier loses share within two back-off rounds unless all others are at the cap, and equal ratings restore configured proportions within six adjustments.",
    note="scripted meters through the public RebalancerMeter option; rotation position projected out of the key; pools of <= 3 servers (A4)",
    parts=[dict(bin="vh", part="c10", shards=16, gang=True, budget=dict(quick=240, thorough=1500)),
           # overlap scenarios (E1, race build): 2-3 calls in flight on one instance, the property's oracle at quiescence
           dict(bin="vsched-race", part="ovl", shards=4, budget=dict(quick=100, thorough=1500))])

CHECKS["C19"] = dict(
    level="exploration", engine="enum", design_ref="DESIGN.md §5 C19",
    technique="bounded-exhaustive input enumeration against the real extractors (all address strings of the stated families, all short strings over a punctuation alphabet, all pairs); plus overlap scenarios: stateless DFS over all schedules (preemption-bounded or unbounded as stated) of 2-3 calls in flight on one instance, race build, the property's oracle at quiescence",
    text="Every IPv4 quad over {0,1,10,127,255}^4 x ports, IPv6 addresses x zone forms x ports in net/http's bracketed form, all strings of length <= 5 over {1 a : [ ] . %}, all well-formed pairs for 'same token iff same address', Host and header name/value case variants, and a list of unsupported variable names.",
    note="small-scope: address components and strings from the listed alphabets (A4); zone may be kept or stripped",
    parts=[dict(bin="vh", part="c19", shards=1),
           # overlap scenarios (E1, race build): 2-3 calls in flight on one instance, the property's oracle at quiescence
           dict(bin="vsched-race", part="ovl", shards=4, budget=dict(quick=100, thorough=1500))])

CHECKS["C11"] = dict(
    level="exploration", engine="enum", design_ref="DESIGN.md §5 C11",
    technique="bounded-exhaustive enumeration of server URLs x cookie encodings x cookie mutations x pool-change sequences on the real balancers (cookie round trip through net/http); plus overlap scenarios: stateless DFS over all schedules (preemption-bounded or unbounded as stated) of 2-3 calls in flight on one instance, race build, the property's oracle at quiescence",
    text="Full product of 896 (thorough: more) server URLs x 22 encodings (raw, hashed, AES-GCM with/without ttl, all fallback chains) x {RoundRobin, Rebalancer}: an intact cookie pins the client to its server whatever the rotation state and weights; absent, expired, removed-server cookies are balanced among current members with a fresh working cookie. For a subset of URLs every truncation, every single-bit flip, re-encodings and foreign-key cookies, and every pool-change sequence up to length 3.",
    note="frozen clock; cookie values pass through http.SetCookie / Response.Cookies / Request.AddCookie exactly as in a real exchange",
    parts=[dict(bin="vh", part="c11", shards=16, budget=dict(quick=100, thorough=1500)),
           # overlap scenarios (E1, race build): 2-3 calls in flight on one instance, the property's oracle at quiescence
           dict(bin="vsched-race", part="ovl", shards=4, budget=dict(quick=100, thorough=1500))])

CHECKS["C06"] = dict(
    level="fault_enumeration", engine="enum", design_ref="DESIGN.md §5 C06",
    technique="bounded-exhaustive enumeration of request shapes x per-attempt handler scripts (bytes consumed, request mutation, failure) on the real buffer; requests parsed by http.ReadRequest from raw bytes; plus overlap scenarios: stateless DFS over all schedules (preemption-bounded or unbounded as stated) of 2-3 calls in flight on one instance, race build, the property's oracle at quiescence",
    text="Full product of memory thresholds, body lengths around them (up to multi-megabyte in thorough), framings, methods, header sets, retry depths 1-3 and, for each failed attempt, how much of the body it consumed and how it mutated the request it was handed: every invocation must see the client's method, URL, headers, true Content-Length, no chunked marker and the body from the first byte.",
    note="handler called through buffer.ServeHTTP with a recorder; the request object is exactly what net/http's server parser produces",
    parts=[dict(bin="vh", part="c06", shards=16, budget=dict(quick=100, thorough=1500)),
           # overlap scenarios (E1, race build): 2-3 calls in flight on one instance, the property's oracle at quiescence
           dict(bin="vsched-race", part="ovl", shards=4, budget=dict(quick=100, thorough=1500))])
CHECKS["C07"] = dict(
    level="fault_enumeration", engine="enum", design_ref="DESIGN.md §5 C07",
    technique="program enumeration (retry expressions from the grammar) x attempt-status sequences against a reference evaluator, plus response-shape enumeration through a real loopback server and raw TCP client; plus overlap scenarios: stateless DFS over all schedules (preemption-bounded or unbounded as stated) of 2-3 calls in flight on one instance, race build, the property's oracle at quiescence",
    text="Every generated retry expression x method x 31 status sequences: invocation count equals the reference reading of the expression capped at 11, and the client gets the final attempt's status/headers/body only. Every response shape (status incl. implicit, header sets, body chunkings, with/without a discarded attempt) over real HTTP: exactly one well-formed response equal to the final attempt's; implicit status => 200; empty body => empty body.",
    note="implicit-status attempts may be read as code 0 or 200 by the expression; 30s watchdog re-run 5x",
    parts=[dict(bin="vh", part="c07", shards=16, budget=dict(quick=100, thorough=1500)),
           # overlap scenarios (E1, race build): 2-3 calls in flight on one instance, the property's oracle at quiescence
           dict(bin="vsched-race", part="ovl", shards=4, budget=dict(quick=100, thorough=1500))])
CHECKS["C15"] = dict(
    level="fault_enumeration", engine="enum", design_ref="DESIGN.md §5 C15",
    technique="bounded-exhaustive enumeration of sizes around the memory threshold and the maximum x framing / write pattern x method x status x retries on the real buffer with a private TMPDIR inspected after every exchange; plus overlap scenarios: stateless DFS over all schedules (preemption-bounded or unbounded as stated) of 2-3 calls in flight on one instance, race build, the property's oracle at quiescence",
    text="Requests over the maximum (declared or chunked) get 413 and never reach the handler; responses over the maximum become an error status with none of the handler's bytes; after every exchange (success, error, over a limit, after retries, bodiless response kinds) the private temporary directory is empty.",
    note="spill files are observed in $TMPDIR of the worker process; request spills are unlinked at creation by multibuf",
    parts=[dict(bin="vh", part="c15", shards=16, budget=dict(quick=100, thorough=1500)),
           # overlap scenarios (E1, race build): 2-3 calls in flight on one instance, the property's oracle at quiescence
           dict(bin="vsched-race", part="ovl", shards=4, budget=dict(quick=100, thorough=1500))])

CHECKS["C08"] = dict(
    level="exploration", engine="enum", design_ref="DESIGN.md §5 C08",
    technique="bounded-exhaustive enumeration of request targets and header/peer/TLS/host configurations through the real forwarder to a raw TCP backend that records the exact bytes received",
    text="All request targets of <= 3 path segments over 11 segment forms (escaped slashes/spaces, multi-byte escapes, semicolons, plus, dot segments, empty segments, sub-delims) x 6 query forms, and all header cases (each hop-by-hop header, headers named in Connection, multi-valued end-to-end headers, every subset of upstream-supplied forwarding headers, Connection naming each of them) x targets x Host forms x peer forms x TLS x pass-host: request line byte-identical, Host per setting, hop-by-hop removed both ways, end-to-end preserved, forwarding headers equal the reference.",
    note="requests parsed by http.ReadRequest; TLS represented by req.TLS; contradictory upstream values are three-valued; Upgrade outside the alphabet",
    parts=[dict(bin="vh", part="c08", shards=16, budget=dict(quick=100, thorough=1500))])
CHECKS["C16"] = dict(
    level="fault_enumeration", engine="enum", design_ref="DESIGN.md §5 C16",
    technique="fault enumeration: every backend response script relayed fault-free and with close/reset/stall injected at every step index, through the real forwarder from a raw TCP backend",
    text="Status, end-to-end headers and body bytes relayed unchanged for every status x header set x size x framing; refused/closed/reset before any byte => 502, stall => 504, client cancellation => 499, broken or garbage head => error status, fault after the head => aborted (ErrAbortHandler) or truncated prefix, never a hang or another panic; StateListener sees exactly connected, disconnected for every exchange including aborted ones.",
    note="ResponseHeaderTimeout is part of the scenario; 30s watchdog re-run 5x; stalls inside the body excluded (no timeout applies there)",
    parts=[dict(bin="vh", part="c16", shards=16, budget=dict(quick=120, thorough=1500))])

CHECKS["C20"] = dict(
    level="exploration", engine="enum", design_ref="DESIGN.md §5 C20",
    technique="exhaustive enumeration of middleware stacks (programs) x handler behaviours over a real net/http server and raw TCP client, differential against the bare handler, plus one intervening configuration per stack position; plus all interleavings of overlapping requests on the connection limiter (429 only while the source is at its limit)",
    text="All 584 stacks of depth <= 3 (37448 of depth <= 5 in thorough) over the eight middlewares x 39 handler behaviours: handler invoked exactly once, same status, end-to-end headers and body bytes as the bare handler, Hijacker available (and used), Flusher available and a flushed chunk seen by the client before the handler continues (except below a buffer); for every position that can intervene: documented status, one complete response, zero handler invocations.",
    note="frozen clock; framing headers chosen by net/http not compared; 5s wait for a flushed chunk only matters when flushing is broken",
    parts=[dict(bin="vh", part="c20", shards=16, budget=dict(quick=120, thorough=1500)),
           # "non-intervening" under overlap: the connection limiter may answer 429 only while the source really is at its
           # limit (all interleavings of the C04 harness, keys prefixed with this property)
           dict(bin="vsched", part="c04", shards=16, budget=dict(quick=100, thorough=1500))])

NOT_APPLICABLE = [dict(property_id=p, reason="check not built yet in this revision (work in progress; see DESIGN.md for the plan)")
                  for p in ALL if p not in CHECKS]

#!/bin/bash
# Runs the repository's pinned test suite in directory $1 (default /repo), extra go-test args after it.
# Prints "SUITE pass=<n> fail=<n>"; exit 0 iff no test failed and no package failed to build.
dir=${1:-/repo}; shift
export GOFLAGS=-mod=mod GOPROXY=off GOSUMDB=off GOTOOLCHAIN=local
cd "$dir" && timeout ${VERIF_SUITE_TIMEOUT:-600} go test -mod=mod -json -vet=off -count=1 -timeout 25m "$@" ./... 2>&1 | python3 -c '
import sys, json
p=f=0; bad=[]
for l in sys.stdin:
    try: d=json.loads(l)
    except Exception: continue
    if d.get("Action")=="pass" and d.get("Test"): p+=1
    if d.get("Action")=="fail":
        f+=1; bad.append((d.get("Package"),d.get("Test")))
print("SUITE pass=%d fail=%d"%(p,f))
for b in bad[:20]: print("  FAIL",b)
sys.exit(1 if f else 0)'

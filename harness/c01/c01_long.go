package c01

import (
	"fmt"
	"net/http"
	"net/url"

	"github.com/vulcand/oxy/v2/roundrobin"
	"github.com/vulcand/oxy/v2/zverif/lib"
)

// The long run: ONE unchanged pool, selections made until the balancer's iterator has taken more than 2^32 steps
// (a pool of 1000 members, 998 of them drained, makes every selection walk hundreds of slots, so 6.1 million
// selections suffice), EVERY window of W consecutive selections checked on the way. Exact proportionality holds
// for a pool that is not being changed however long it is left alone - also across the point where a position
// kept in 32 bits would wrap (pool sizes that are not a power of two do not divide 2^32).

const longPool = 1000

func longURL(i int) *url.URL { return &url.URL{Scheme: "http", Host: fmt.Sprintf("m%d:80", i)} }

func runLongOnce(selections int) (bad bool, detail string, steps int64) {
	rr, err := roundrobin.New(http.HandlerFunc(func(w http.ResponseWriter, r *http.Request) {}))
	if err != nil {
		panic(err)
	}
	for i := 0; i < longPool-2; i++ {
		rr.UpsertServer(longURL(i))
		rr.UpsertServer(longURL(i), roundrobin.Weight(0))
	}
	light, heavy := longURL(longPool-2), longURL(longPool-1)
	rr.UpsertServer(light, roundrobin.Weight(1))
	rr.UpsertServer(heavy, roundrobin.Weight(3))
	const W = 4
	var ring [W]byte // 1 light, 3 heavy
	nl, nh := 0, 0
	for k := 0; k < selections; k++ {
		u, err := rr.NextServer()
		if err != nil {
			return true, fmt.Sprintf("selection %d failed: %v", k, err), steps
		}
		var c byte
		switch u.Host {
		case light.Host:
			c = 1
		case heavy.Host:
			c = 3
		default:
			return true, fmt.Sprintf("selection %d chose the drained member %s", k, u.Host), steps
		}
		switch ring[k%W] {
		case 1:
			nl--
		case 3:
			nh--
		}
		ring[k%W] = c
		if c == 1 {
			nl++
		} else {
			nh++
		}
		if k >= W-1 && (nl != 1 || nh != 3) {
			return true, fmt.Sprintf("pool of %d members (998 drained, weights 1 and 3) left unchanged: the %d consecutive selections ending with selection number %d chose the weight-1 member %d times and the weight-3 member %d times (want 1 and 3)", longPool, W, k, nl, nh), steps
		}
	}
	// 3 passes over the pool per 4 selections
	return false, "", int64(selections) / 4 * 3 * longPool
}

func longSelections(tier string) int {
	if tier == "thorough" {
		return 12_400_000 // beyond 2^33 iterator steps
	}
	return 6_100_000 // beyond 2^32 iterator steps (2^32 / 750 = 5.73 million)
}

// RunLong is the part "c01long".
func RunLong(tier string, sh lib.Shard, rep *lib.Report) {
	if rep.Property == "" {
		rep.Property = "C01"
	}
	n := longSelections(tier)
	rep.Rule = "one unchanged pool of 1000 members (998 drained), selections until the iterator has taken more than 2^32 (thorough: 2^33) steps; every window of W consecutive selections on the way is checked for exact proportionality"
	if sh.I != 0 {
		return
	}
	bad, detail, steps := runLongOnce(n)
	rep.Evaluations += n
	rep.Nontrivial += n
	rep.Add("long_run_selections", n)
	rep.Bounds["long_run"] = fmt.Sprintf("%d selections, about %d iterator steps, every window of 4 checked", n, steps)
	rep.Require("long_run_selections")
	if bad {
		rep.Violate("C01:rr:disproportionate-window:long-run", detail, map[string]any{"engine": "enum", "part": "c01long", "selections": n})
	}
}

func ReplayLong(rp map[string]any) (bool, string) {
	n := longSelections("quick")
	if f, ok := rp["selections"].(float64); ok {
		n = int(f)
	}
	bad, detail, _ := runLongOnce(n)
	if bad {
		return true, "C01:rr:disproportionate-window:long-run :: " + detail
	}
	return false, "every window of the long run was exactly proportional"
}

package main

import (
	"github.com/vulcand/oxy/v2/zverif/buf"
	"github.com/vulcand/oxy/v2/zverif/c01"
	"github.com/vulcand/oxy/v2/zverif/c02"
	"github.com/vulcand/oxy/v2/zverif/c03"
	"github.com/vulcand/oxy/v2/zverif/c10"
	"github.com/vulcand/oxy/v2/zverif/c11"
	"github.com/vulcand/oxy/v2/zverif/c14"
	"github.com/vulcand/oxy/v2/zverif/c17"
	"github.com/vulcand/oxy/v2/zverif/c19"
	"github.com/vulcand/oxy/v2/zverif/c20"
	"github.com/vulcand/oxy/v2/zverif/cb"
	"github.com/vulcand/oxy/v2/zverif/fwd"
)

func init() {
	parts["c20"] = c20.Run
	replays["c20"] = c20.Replay
	parts["c08"] = fwd.RunC08
	replays["c08"] = fwd.ReplayC08
	parts["c16"] = fwd.RunC16
	replays["c16"] = fwd.ReplayC16
	parts["c06"] = buf.RunC06
	replays["c06"] = buf.ReplayC06
	parts["c07"] = buf.RunC07
	replays["c07"] = buf.ReplayC07
	parts["c15"] = buf.RunC15
	replays["c15"] = buf.ReplayC15
	parts["c11"] = c11.Run
	replays["c11"] = c11.Replay
	parts["c19"] = c19.Run
	replays["c19"] = c19.Replay
	parts["c10"] = c10.Run
	replays["c10"] = c10.Replay
	parts["cb"] = cb.Run
	replays["cb"] = cb.Replay
	parts["c14"] = c14.Run
	replays["c14"] = c14.Replay
	parts["c03"] = c03.Run
	replays["c03"] = c03.Replay
	parts["c02"] = c02.Run
	replays["c02"] = c02.Replay
	parts["c01"] = c01.Run
	replays["c01"] = c01.Replay
	parts["c01long"] = c01.RunLong
	replays["c01long"] = c01.ReplayLong
	parts["c17"] = c17.Run
	replays["c17"] = c17.Replay
}

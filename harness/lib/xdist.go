package lib

import (
	"encoding/binary"
	"fmt"
	"os"
	"path/filepath"
	"time"
)

// RunDistributed is Run for state spaces that are strongly connected (sharding by
// subtrees would make every worker explore everything): a level-synchronous
// breadth-first search in which worker i owns the states whose key hash is i mod N.
// Successors owned by another worker are shipped through files in a shared
// directory; a barrier (marker files) separates the levels. All N workers must
// run at the same time (the orchestrator starts "gang" parts together).
//
// OnTransition is evaluated by the worker that computes a transition, Check by
// the owner of the (new) target state.
func (m *Model[S]) RunDistributed(rep *Report, sh Shard, dir string) XResult {
	if sh.N <= 1 || dir == "" {
		return m.Run(rep)
	}
	dir = filepath.Join(dir, fmt.Sprintf("%x", hashKey(m.Name))[:12])
	os.MkdirAll(dir, 0o755)
	var res XResult
	res.Complete = true
	seen := map[[20]byte]bool{}
	owner := func(k [20]byte) int { return int(binary.BigEndian.Uint32(k[:4]) % uint32(sh.N)) }
	var frontier [][]int
	admit := func(k [20]byte, hist []int, s *S, obs []string) {
		if seen[k] {
			res.Merges++
			return
		}
		seen[k] = true
		res.States++
		rep.StateHashes = append(rep.StateHashes, k[:8]...)
		if m.Check != nil {
			if s == nil {
				st, o := m.Build(hist)
				s, obs = &st, o
			}
			m.Check(*s, hist, obs, rep)
		}
		frontier = append(frontier, hist)
	}
	// root
	{
		s, obs := m.Build(nil)
		k := hashKey(m.Name + "\x00" + m.Key(s))
		if owner(k) == sh.I {
			admit(k, []int{}, &s, obs)
		}
	}
	abortFile := filepath.Join(dir, "abort")
	aborted := func() bool { _, err := os.Stat(abortFile); return err == nil }
	wait := func(pattern string) bool {
		t0 := time.Now()
		for {
			ms, _ := filepath.Glob(filepath.Join(dir, pattern))
			if len(ms) >= sh.N {
				return true
			}
			if aborted() {
				return false
			}
			if time.Since(t0) > 10*time.Minute {
				rep.DistrustF("distributed search %s: barrier %s timed out (a worker died?)", m.Name, pattern)
				os.WriteFile(abortFile, []byte("timeout"), 0o644)
				return false
			}
			time.Sleep(3 * time.Millisecond)
		}
	}
	writeAtomic := func(name string, b []byte) {
		tmp := filepath.Join(dir, ".tmp-"+name)
		os.WriteFile(tmp, b, 0o644)
		os.Rename(tmp, filepath.Join(dir, name))
	}
	depth := 0
	for {
		if m.MaxDepth > 0 && depth >= m.MaxDepth {
			res.Complete = false
			break
		}
		cur := frontier
		frontier = nil
		out := make([][]byte, sh.N)
		stop := false
		for _, hist := range cur {
			if (!m.Deadline.IsZero() && time.Now().After(m.Deadline)) || (m.MaxStates > 0 && res.States*sh.N >= m.MaxStates) || aborted() {
				os.WriteFile(abortFile, []byte("budget"), 0o644)
				stop = true
				break
			}
			var en []int
			if m.Enabled != nil {
				s, _ := m.Build(hist)
				for op := range m.Ops {
					if m.Enabled(s, op) {
						en = append(en, op)
					}
				}
			} else {
				for op := range m.Ops {
					en = append(en, op)
				}
			}
			for _, op := range en {
				h2 := append(append(make([]int, 0, len(hist)+1), hist...), op)
				res.Transitions++
				s, obs := m.Build(h2)
				if m.OnTransition != nil {
					m.OnTransition(s, h2, obs, rep)
				}
				k := hashKey(m.Name + "\x00" + m.Key(s))
				if o := owner(k); o == sh.I {
					admit(k, h2, &s, obs)
				} else if !seen[k] {
					seen[k] = true // do not ship the same foreign state twice
					b := out[o]
					b = append(b, k[:]...)
					b = binary.BigEndian.AppendUint16(b, uint16(len(h2)))
					for _, x := range h2 {
						b = binary.BigEndian.AppendUint16(b, uint16(x))
					}
					out[o] = b
				} else {
					res.Merges++
				}
			}
		}
		for o := 0; o < sh.N; o++ {
			if o != sh.I {
				writeAtomic(fmt.Sprintf("L%d-from%d-to%d", depth, sh.I, o), out[o])
			}
		}
		writeAtomic(fmt.Sprintf("L%d-sent-%d", depth, sh.I), nil)
		if stop || !wait(fmt.Sprintf("L%d-sent-*", depth)) {
			res.Complete = false
			rep.Exhaustive = false
			rep.Bounds[m.Name+".budget_hit_at_depth"] = depth
			break
		}
		for o := 0; o < sh.N; o++ {
			if o == sh.I {
				continue
			}
			b, _ := os.ReadFile(filepath.Join(dir, fmt.Sprintf("L%d-from%d-to%d", depth, o, sh.I)))
			for len(b) >= 22 {
				var k [20]byte
				copy(k[:], b[:20])
				n := int(binary.BigEndian.Uint16(b[20:22]))
				b = b[22:]
				hist := make([]int, n)
				for i := 0; i < n; i++ {
					hist[i] = int(binary.BigEndian.Uint16(b[2*i:]))
				}
				b = b[2*n:]
				admit(k, hist, nil, nil)
			}
		}
		writeAtomic(fmt.Sprintf("L%d-next-%d-%d", depth, sh.I, len(frontier)), nil)
		if !wait(fmt.Sprintf("L%d-next-*", depth)) {
			res.Complete = false
			rep.Exhaustive = false
			rep.Bounds[m.Name+".budget_hit_at_depth"] = depth
			break
		}
		ms, _ := filepath.Glob(filepath.Join(dir, fmt.Sprintf("L%d-next-*", depth)))
		total := 0
		for _, f := range ms {
			var d, w, n int
			fmt.Sscanf(filepath.Base(f), "L%d-next-%d-%d", &d, &w, &n)
			total += n
		}
		depth++
		if total == 0 {
			break
		}
	}
	return m.finish(rep, res, depth)
}

//go:build verif

// Package c09: freedom from data races. Each harness runs 2-3 request threads and
// one administration/inspection thread on a real middleware under the controlled
// scheduler, built with -race: for every explored schedule the race detector (a
// precise happens-before checker that sees only the program's own locks) must stay
// silent, no deadlock may occur and exact totals must hold at quiescence.
package c09

import (
	"context"
	"fmt"
	"io"
	"net/http"
	"net/http/httptest"
	"net/url"
	"strings"
	"sync"
	"time"

	"github.com/vulcand/oxy/v2/buffer"
	"github.com/vulcand/oxy/v2/cbreaker"
	"github.com/vulcand/oxy/v2/connlimit"
	"github.com/vulcand/oxy/v2/forward"
	"github.com/vulcand/oxy/v2/internal/holsterv4/clock"
	"github.com/vulcand/oxy/v2/internal/holsterv4/collections"
	"github.com/vulcand/oxy/v2/internal/verif/vrt"
	"github.com/vulcand/oxy/v2/memmetrics"
	"github.com/vulcand/oxy/v2/ratelimit"
	"github.com/vulcand/oxy/v2/roundrobin"
	"github.com/vulcand/oxy/v2/trace"
	"github.com/vulcand/oxy/v2/utils"
	"github.com/vulcand/oxy/v2/zverif/lib"
	"github.com/vulcand/oxy/v2/zverif/sched"
)

var base = clock.Date(2012, 3, 4, 5, 6, 7, 0, clock.UTC)

func mustURL(s string) *url.URL {
	u, err := url.Parse(s)
	if err != nil {
		panic(err)
	}
	return u
}

type counter struct{ n [8]int }

//go:norace
func (c *counter) inc(i int) { c.n[i]++ }

//go:norace
func (c *counter) get(i int) int { return c.n[i] }

func okHandler(c *counter, yield bool) http.Handler {
	return http.HandlerFunc(func(w http.ResponseWriter, r *http.Request) {
		c.inc(0)
		if yield {
			vrt.Yield()
		}
		w.WriteHeader(200)
	})
}

// plainRequest builds what httptest.NewRequest("GET", target, nil) builds, without parsing: no bufio / textproto
// sync.Pool is touched inside a thread (pools are synchronisation the race detector sees; an item handed from one
// thread to the other is an accidental happens-before edge that can hide a race of the code under test).
func plainRequest(target string) *http.Request {
	u := mustURL(target)
	return (&http.Request{Method: "GET", URL: u, Proto: "HTTP/1.1", ProtoMajor: 1, ProtoMinor: 1, Header: http.Header{}, Body: http.NoBody,
		Host: u.Host, RemoteAddr: "192.0.2.1:1234", RequestURI: target}).WithContext(context.Background())
}

func serve(h http.Handler) int {
	rec := httptest.NewRecorder()
	req := plainRequest("http://client/")
	req.Header.Set("Source", "a")
	req.RemoteAddr = "1.2.3.4:5"
	h.ServeHTTP(rec, req)
	return rec.Code
}

func fail(key, f string, a ...any) vrt.Failure {
	return vrt.Failure{Key: "C09:" + key, Detail: fmt.Sprintf(f, a...)}
}

type builder func() *sched.Instance

func mk(name string, bound int, unlockPoint bool, b builder) *sched.Scenario {
	// bound and unlock points are part of the name: a recorded schedule only means something under the same points
	name = fmt.Sprintf("%s/bound=%d/unlock-points=%v", name, bound, unlockPoint)
	return &sched.Scenario{Name: name, Bound: bound, UnlockPoint: unlockPoint, New: func() *sched.Instance {
		clock.VerifInstall(base, nil)
		return b()
	}}
}

func roundRobin() *sched.Instance {
	c := &counter{}
	rr, _ := roundrobin.New(okHandler(c, false))
	a, b, cc := mustURL("http://a"), mustURL("http://b"), mustURL("http://c")
	rr.UpsertServer(a)
	rr.UpsertServer(b)
	inst := &sched.Instance{Names: []string{"req1", "req2", "admin", "inspect"}}
	inst.Bodies = []func(){
		func() { serve(rr); serve(rr) },
		func() { serve(rr) },
		func() {
			rr.UpsertServer(cc, roundrobin.Weight(2))
			rr.RemoveServer(a)
			rr.UpsertServer(b, roundrobin.Weight(3))
		},
		func() { rr.Servers(); rr.ServerWeight(b); rr.NextServer() },
	}
	inst.Check = func(*vrt.Exec) []vrt.Failure {
		if c.get(0) != 3 {
			return []vrt.Failure{fail("lost-update:roundrobin", "3 requests, handler invoked %d times", c.get(0))}
		}
		if len(rr.Servers()) != 2 {
			return []vrt.Failure{fail("lost-update:roundrobin", "pool has %d members, want 2", len(rr.Servers()))}
		}
		return nil
	}
	return inst
}

// roundRobinRefusedAdmin: administration calls that are REFUSED (an invalid weight for a member, alone or after a
// valid option; removal of an unknown server) overlap requests. A refused call changes nothing - and touches nothing
// a request reads outside the balancer's lock.
func roundRobinRefusedAdmin(viaRebalancer bool) *sched.Instance {
	c := &counter{}
	rr, _ := roundrobin.New(okHandler(c, false))
	a, b := mustURL("http://a"), mustURL("http://b")
	var front interface {
		http.Handler
		UpsertServer(*url.URL, ...roundrobin.ServerOption) error
		RemoveServer(*url.URL) error
		Servers() []*url.URL
	} = rr
	if viaRebalancer {
		rb, err := roundrobin.NewRebalancer(rr)
		if err != nil {
			panic(err)
		}
		front = rb
	}
	front.UpsertServer(a)
	front.UpsertServer(b, roundrobin.Weight(2))
	var errs [3]error
	inst := &sched.Instance{Names: []string{"req1", "req2", "refused-admin"}}
	inst.Bodies = []func(){
		func() { serve(front); serve(front) },
		func() { serve(front) },
		func() {
			errs[0] = front.UpsertServer(mustURL("http://b"), roundrobin.Weight(-1))
			errs[1] = front.UpsertServer(mustURL("http://a"), roundrobin.Weight(3), roundrobin.Weight(-1))
			errs[2] = front.RemoveServer(mustURL("http://unknown"))
		},
	}
	inst.Check = func(*vrt.Exec) []vrt.Failure {
		if c.get(0) != 3 {
			return []vrt.Failure{fail("lost-update:roundrobin-refused-admin", "3 requests, handler invoked %d times", c.get(0))}
		}
		wa, _ := rr.ServerWeight(a)
		wb, _ := rr.ServerWeight(b)
		if errs[0] == nil || errs[1] == nil || errs[2] == nil || len(front.Servers()) != 2 || wa != 1 || wb != 2 {
			return []vrt.Failure{fail("refused-call-had-an-effect:roundrobin", "refused administration calls (errors %v): pool %v, weights a=%d b=%d (want the pool a=1 b=2 untouched)", errs, front.Servers(), wa, wb)}
		}
		return nil
	}
	return inst
}

// roundRobinSticky: sticky sessions make every request take a snapshot of the pool (Servers()) and walk it outside
// the balancer's lock; the inspector keeps a snapshot across another call. Snapshots belong to their caller:
// nothing the balancer does later may write to them.
func roundRobinSticky() *sched.Instance {
	c := &counter{}
	rr, _ := roundrobin.New(okHandler(c, false), roundrobin.EnableStickySession(roundrobin.NewStickySession("sid")))
	a, b, cc := mustURL("http://a"), mustURL("http://b"), mustURL("http://c")
	rr.UpsertServer(a)
	rr.UpsertServer(b)
	rr.UpsertServer(cc)
	rr.Servers()
	sticky := func() int {
		rec := httptest.NewRecorder()
		req := plainRequest("http://client/")
		req.AddCookie(&http.Cookie{Name: "sid", Value: "http://b"})
		rr.ServeHTTP(rec, req)
		return rec.Code
	}
	var snapshot []string
	inst := &sched.Instance{Names: []string{"req1", "req2", "admin", "inspect"}}
	inst.Bodies = []func(){
		func() { sticky(); sticky() },
		func() { sticky() },
		func() { rr.RemoveServer(a); rr.UpsertServer(a) },
		func() {
			s := rr.Servers()
			rr.ServerWeight(b) // a scheduling point while the snapshot is held
			for _, u := range s {
				snapshot = append(snapshot, u.Host)
			}
		},
	}
	inst.Check = func(*vrt.Exec) []vrt.Failure {
		if c.get(0) != 3 {
			return []vrt.Failure{fail("lost-update:roundrobin-sticky", "3 requests, handler invoked %d times", c.get(0))}
		}
		seen := map[string]bool{}
		for _, h := range snapshot {
			if seen[h] {
				return []vrt.Failure{fail("snapshot-rewritten:roundrobin", "a pool snapshot taken by the inspector lists %v: a server twice (the pool never held a server twice)", snapshot)}
			}
			seen[h] = true
		}
		return nil
	}
	return inst
}

func rebalancer() *sched.Instance {
	c := &counter{}
	rr, _ := roundrobin.New(okHandler(c, false))
	rb, _ := roundrobin.NewRebalancer(rr)
	a, b, cc := mustURL("http://a"), mustURL("http://b"), mustURL("http://c")
	rb.UpsertServer(a)
	rb.UpsertServer(b)
	inst := &sched.Instance{Names: []string{"req1", "req2", "admin"}}
	inst.Bodies = []func(){
		func() { serve(rb); serve(rb) },
		func() { serve(rb) },
		func() { rb.UpsertServer(cc); rb.RemoveServer(a); rb.Servers() },
	}
	inst.Check = func(*vrt.Exec) []vrt.Failure {
		if c.get(0) != 3 || len(rb.Servers()) != 2 {
			return []vrt.Failure{fail("lost-update:rebalancer", "handler invoked %d times (want 3), pool size %d (want 2)", c.get(0), len(rb.Servers()))}
		}
		return nil
	}
	return inst
}

type scriptMeter struct {
	rating float64
	ready  bool
}

func (m *scriptMeter) Rating() float64           { return m.rating }
func (m *scriptMeter) Record(int, time.Duration) {}
func (m *scriptMeter) IsReady() bool             { return m.ready }

// rebalancerAdjusting: scripted, ready meters make every completing request re-weight the
// pool while an administrator re-adds a server; at quiescence ratings are equalised and the
// configured weights must come back: no administration update may be lost.
func rebalancerAdjusting() *sched.Instance {
	c := &counter{}
	rr, _ := roundrobin.New(okHandler(c, false))
	var meters []*scriptMeter
	rb, _ := roundrobin.NewRebalancer(rr, roundrobin.RebalancerBackoff(time.Second), roundrobin.RebalancerMeter(func() (roundrobin.Meter, error) {
		m := &scriptMeter{ready: true}
		meters = append(meters, m)
		return m, nil
	}))
	a, b := mustURL("http://a"), mustURL("http://b")
	rb.UpsertServer(a)
	rb.UpsertServer(b)
	meters[0].rating = 1 // a is failing: b gets boosted by every adjustment
	inst := &sched.Instance{Names: []string{"req1", "req2", "admin"}}
	inst.Bodies = []func(){
		func() { serve(rb); clock.VerifAdvance(2 * time.Second); serve(rb) },
		func() { serve(rb) },
		func() { rb.UpsertServer(b); rb.Servers() },
	}
	inst.Check = func(*vrt.Exec) []vrt.Failure {
		if c.get(0) != 3 {
			return []vrt.Failure{fail("lost-update:rebalancer", "3 requests, handler invoked %d times", c.get(0))}
		}
		for _, m := range meters {
			m.rating = 0
		}
		for k := 0; k < 7; k++ {
			clock.VerifAdvance(2 * time.Second)
			serve(rb)
		}
		wa, _ := rr.ServerWeight(a)
		wb, _ := rr.ServerWeight(b)
		if wa != wb {
			return []vrt.Failure{fail("lost-update:rebalancer-configured-weight", "both servers were configured with weight 1; after ratings equalised for seven back-off rounds the weights are a=%d b=%d", wa, wb)}
		}
		return nil
	}
	return inst
}

// yieldingLogger is user code inside the middleware: it takes its time (a scheduling point) and then really
// formats its arguments - the middleware itself among them, through its String() method.
type yieldingLogger struct{}

func (yieldingLogger) log(msg string, a ...any) {
	vrt.Yield()
	_ = fmt.Sprintf(msg, a...)
}
func (l yieldingLogger) Debug(msg string, a ...any) { l.log(msg, a...) }
func (l yieldingLogger) Info(msg string, a ...any)  { l.log(msg, a...) }
func (l yieldingLogger) Warn(msg string, a ...any)  { l.log(msg, a...) }
func (l yieldingLogger) Error(msg string, a ...any) { l.log(msg, a...) }

type effect struct{ c *counter }

func (e effect) Exec() error { e.c.inc(1); return nil }

func breaker() *sched.Instance {
	c := &counter{}
	h := http.HandlerFunc(func(w http.ResponseWriter, r *http.Request) {
		c.inc(0)
		vrt.Yield()
		w.WriteHeader(502)
	})
	cb, err := cbreaker.New(h, "NetworkErrorRatio() > 0.5 || ResponseCodeRatio(500, 600, 0, 600) > 0.9 || LatencyAtQuantileMS(50.0) > 100", cbreaker.OnTripped(effect{c}), cbreaker.Logger(yieldingLogger{})) // a logger that really formats its arguments (the breaker itself among them)
	if err != nil {
		panic(err)
	}
	inst := &sched.Instance{Names: []string{"req1", "req2", "req3"}}
	inst.Bodies = []func(){func() { serve(cb) }, func() { serve(cb) }, func() { serve(cb); serve(cb) }}
	inst.Check = func(*vrt.Exec) []vrt.Failure {
		if c.get(1) != 1 {
			return []vrt.Failure{fail("breaker-side-effect-count", "failing requests raced to trip the breaker: OnTripped ran %d times, want exactly 1", c.get(1))}
		}
		return nil
	}
	return inst
}

// breakerRecovering: the breaker is driven (sequentially, before the threads start) through trip and fallback into
// the recovery period; then requests overlap while every admission decision updates the ramp's bookkeeping.
func breakerRecovering() *sched.Instance {
	c := &counter{}
	code := 502
	h := http.HandlerFunc(func(w http.ResponseWriter, r *http.Request) {
		c.inc(0)
		vrt.Yield()
		w.WriteHeader(code)
	})
	cb, err := cbreaker.New(h, "NetworkErrorRatio() > 0.5", cbreaker.FallbackDuration(2*time.Second), cbreaker.RecoveryDuration(10*time.Second), cbreaker.Logger(yieldingLogger{}))
	if err != nil {
		panic(err)
	}
	serve(cb)
	clock.VerifAdvance(200 * time.Millisecond)
	serve(cb) // trips
	clock.VerifAdvance(3 * time.Second)
	first := serve(cb) // fallback elapsed: recovery begins, ramp 0
	code = 200
	clock.VerifAdvance(5 * time.Second)
	prepared := strings.Contains(cb.String(), "recovering") && first == 503
	before := c.get(0)
	var codes [4]int
	// ... and the clock moves past the end of the recovery period while they are in flight: one of them performs the
	// transition back to standby while others are still deciding (or logging)
	inst := &sched.Instance{Names: []string{"req1", "req2", "req3", "clock"}}
	inst.Bodies = []func(){func() { codes[0] = serve(cb) }, func() { codes[1] = serve(cb) }, func() { codes[2] = serve(cb); codes[3] = serve(cb) },
		func() { vrt.Yield(); clock.VerifAdvance(6 * time.Second) }}
	inst.Check = func(*vrt.Exec) []vrt.Failure {
		if !prepared {
			return []vrt.Failure{fail("harness:breaker-not-recovering", "the prepared breaker is %s (first request of the recovery got %d)", cb.String(), first)}
		}
		passed, refused := 0, 0
		for _, x := range codes {
			if x == 200 {
				passed++
			} else if x == 503 {
				refused++
			}
		}
		if passed+refused != 4 || c.get(0)-before != passed {
			return []vrt.Failure{fail("lost-update:breaker-recovering", "4 overlapping requests during recovery: codes %v, handler invoked %d times", codes, c.get(0)-before)}
		}
		// the ramp's own bookkeeping must account for every decision: the request that began recovery + these four
		a, d := lib.Field(cb, "rc", "allowed"), lib.Field(cb, "rc", "denied")
		if strings.Contains(cb.String(), "recovering") { // (once the breaker is back in standby the ramp is gone)
			if a.IsValid() && d.IsValid() && a.Int()+d.Int() != 5 {
				return []vrt.Failure{fail("lost-update:breaker-ramp-bookkeeping", "5 admission decisions since recovery began, the ramp counted allowed=%d denied=%d", a.Int(), d.Int())}
			}
		}
		return nil
	}
	return inst
}

func rtMetrics() *sched.Instance {
	m, err := memmetrics.NewRTMetrics()
	if err != nil {
		panic(err)
	}
	inst := &sched.Instance{Names: []string{"rec1", "rec2", "read"}}
	inst.Bodies = []func(){
		// one status code only: iterating a multi-entry map of per-code counters (each with its
		// own lock) would make the order of scheduling points depend on Go's random map order
		func() { m.Record(502, time.Millisecond); m.Record(502, time.Second) },
		func() { m.Record(502, 2*time.Hour) }, // a latency beyond the histogram's range (a long-lived streaming exchange)
		func() {
			m.NetworkErrorRatio()
			m.ResponseCodeRatio(500, 600, 0, 600)
			m.StatusCodesCounts()
			m.TotalCount()
			m.LatencyHistogram()
		},
	}
	inst.Check = func(*vrt.Exec) []vrt.Failure {
		var f []vrt.Failure
		if m.TotalCount() != 3 || m.NetworkErrorCount() != 3 {
			f = append(f, fail("lost-update:rtmetrics", "3 Record calls (all network errors): TotalCount=%d NetworkErrorCount=%d", m.TotalCount(), m.NetworkErrorCount()))
		}
		var sum int64
		for _, n := range m.StatusCodesCounts() {
			sum += n
		}
		if sum != 3 {
			f = append(f, fail("lost-update:rtmetrics", "status code counts sum to %d, want 3", sum))
		}
		return f
	}
	return inst
}

// rtMetricsAcrossBoundary: two Record calls overlap a step of the clock across a bucket boundary of the rolling
// counters (whichever instant a call read before it waited for a counter's lock, both records are younger than the
// window: none may be lost).
func rtMetricsAcrossBoundary() *sched.Instance {
	m, err := memmetrics.NewRTMetrics()
	if err != nil {
		panic(err)
	}
	inst := &sched.Instance{Names: []string{"rec1", "rec2", "clock"}}
	inst.Bodies = []func(){
		func() { m.Record(502, time.Millisecond) },
		func() { m.Record(502, time.Millisecond) },
		func() {
			vrt.Yield()
			clock.VerifAdvance(time.Second)
			vrt.Yield()
		},
	}
	inst.Check = func(*vrt.Exec) []vrt.Failure {
		if m.TotalCount() != 2 || m.NetworkErrorCount() != 2 {
			return []vrt.Failure{fail("lost-update:rtmetrics-across-a-bucket-boundary", "2 Record calls (network errors) overlapping a 1s clock step: TotalCount=%d NetworkErrorCount=%d", m.TotalCount(), m.NetworkErrorCount())}
		}
		var sum int64
		for _, n := range m.StatusCodesCounts() {
			sum += n
		}
		if sum != 2 {
			return []vrt.Failure{fail("lost-update:rtmetrics-across-a-bucket-boundary", "status code counts sum to %d, want 2", sum)}
		}
		return nil
	}
	return inst
}

func rtMetricsExport() *sched.Instance {
	m, _ := memmetrics.NewRTMetrics()
	m.Record(200, time.Millisecond)
	inst := &sched.Instance{Names: []string{"rec", "export", "read"}}
	inst.Bodies = []func(){
		func() { m.Record(200, time.Millisecond); m.Record(200, time.Millisecond) },
		func() { m.Export() },
		func() { m.ResponseCodeRatio(400, 500, 200, 300); m.NetworkErrorCount() },
	}
	inst.Check = func(*vrt.Exec) []vrt.Failure {
		if m.TotalCount() != 3 {
			return []vrt.Failure{fail("lost-update:rtmetrics", "TotalCount=%d want 3", m.TotalCount())}
		}
		return nil
	}
	return inst
}

func extractor() utils.SourceExtractor {
	return utils.ExtractorFunc(func(r *http.Request) (string, int64, error) { return r.Header.Get("Source"), 1, nil })
}

func tokenLimiter() *sched.Instance {
	c := &counter{}
	rs := ratelimit.NewRateSet()
	rs.Add(time.Second, 1, 2)
	tl, _ := ratelimit.New(okHandler(c, true), extractor(), rs, ratelimit.Capacity(1))
	req := func(src string) func() {
		return func() {
			rec := httptest.NewRecorder()
			r := plainRequest("http://x/")
			r.Header.Set("Source", src)
			tl.ServeHTTP(rec, r)
		}
	}
	inst := &sched.Instance{Names: []string{"a1", "a2", "b"}}
	a := req("a")
	inst.Bodies = []func(){func() { a(); a() }, a, req("b")}
	inst.Check = func(*vrt.Exec) []vrt.Failure {
		if n := c.get(0); n < 2 || n > 4 {
			return []vrt.Failure{fail("lost-update:tokenlimiter", "%d requests admitted", n)}
		}
		return nil
	}
	return inst
}

// tokenLimiterFirstContact: three requests of one not-yet-known source at one instant, no capacity pressure: the
// source's bookkeeping must not lose an update - exactly burst (2) of them are admitted in every schedule.
func tokenLimiterFirstContact() *sched.Instance {
	c := &counter{}
	rs := ratelimit.NewRateSet()
	rs.Add(time.Second, 1, 2)
	tl, _ := ratelimit.New(okHandler(c, true), extractor(), rs)
	var codes [3]int
	req := func(i int) func() {
		return func() {
			rec := httptest.NewRecorder()
			r := plainRequest("http://x/")
			r.Header.Set("Source", "a")
			tl.ServeHTTP(rec, r)
			codes[i] = rec.Code
		}
	}
	inst := &sched.Instance{Names: []string{"a1", "a2", "a3"}}
	inst.Bodies = []func(){req(0), req(1), req(2)}
	inst.Check = func(*vrt.Exec) []vrt.Failure {
		ok := 0
		for _, x := range codes {
			if x == 200 {
				ok++
			}
		}
		if ok != 2 || c.get(0) != 2 {
			return []vrt.Failure{fail("lost-update:tokenlimiter-first-contact", "three requests of a new source at one instant, burst 2: %d admitted (statuses %v, handler invoked %d times)", ok, codes, c.get(0))}
		}
		return nil
	}
	return inst
}

func ttlMap() *sched.Instance {
	m := collections.NewTTLMap(2)
	m.Set("k", 1, 1)
	inst := &sched.Instance{Names: []string{"set", "get", "len"}}
	inst.Bodies = []func(){
		func() { m.Set("a", 1, 10); m.Set("b", 2, 10); m.Increment("a", 1, 10) },
		func() { m.Get("a"); clock.VerifAdvance(2 * time.Second); m.Get("k") },
		func() { m.Len(); m.GetInt("b") },
	}
	inst.Check = func(*vrt.Exec) []vrt.Failure {
		if m.Len() > 2 {
			return []vrt.Failure{fail("lost-update:ttlmap", "capacity 2, Len()=%d", m.Len())}
		}
		return nil
	}
	return inst
}

func connLimiter() *sched.Instance {
	c := &counter{}
	cl, _ := connlimit.New(okHandler(c, true), extractor(), 2)
	inst := &sched.Instance{Names: []string{"r1", "r2", "r3"}}
	inst.Bodies = []func(){func() { serve(cl) }, func() { serve(cl) }, func() { serve(cl) }}
	return inst
}

type lockedWriter struct {
	mu sync.Mutex
	n  int
}

func (l *lockedWriter) Write(p []byte) (int, error) {
	l.mu.Lock()
	defer l.mu.Unlock()
	l.n++
	return len(p), nil
}

func tracer() *sched.Instance {
	c := &counter{}
	sink := &lockedWriter{} // a synchronised sink, so that a user-supplied writer is not blamed on oxy
	tr, err := trace.New(okHandler(c, true), io.Writer(sink), trace.RequestHeaders("Source"), trace.ResponseHeaders("X-A"))
	if err != nil {
		panic(err)
	}
	inst := &sched.Instance{Names: []string{"r1", "r2"}}
	inst.Bodies = []func(){func() { serve(tr); serve(tr) }, func() { serve(tr) }}
	inst.Check = func(*vrt.Exec) []vrt.Failure {
		if sink.n != 3 {
			return []vrt.Failure{fail("lost-update:tracer", "3 requests, %d records written", sink.n)}
		}
		return nil
	}
	return inst
}

// bufferOverlap: two clients with different bodies go through ONE Buffer at the same time (retry configured,
// the first attempt of each fails): every attempt must see its own client's body, every client must get its
// own final response - and nothing inside the middleware may be shared without synchronisation.
func bufferOverlap() *sched.Instance {
	var mu sync.Mutex // the shim's mutex: a scheduling point, so attempts interleave
	attempts := map[string]int{}
	var wrong []string
	h := http.HandlerFunc(func(w http.ResponseWriter, r *http.Request) {
		id := r.Header.Get("Id")
		body, _ := io.ReadAll(r.Body)
		mu.Lock()
		attempts[id]++
		n := attempts[id]
		if string(body) != "body-of-"+id {
			wrong = append(wrong, fmt.Sprintf("attempt %d of %s read body %q", n, id, body))
		}
		mu.Unlock()
		vrt.Yield()
		w.Header().Set("X-Echo", id)
		if n == 1 {
			w.WriteHeader(502)
			w.Write([]byte("failed-" + id))
			return
		}
		w.WriteHeader(200)
		w.Write([]byte("answer-for-" + id))
	})
	b, err := buffer.New(h, buffer.Retry("IsNetworkError() && Attempts() < 3"))
	if err != nil {
		panic(err)
	}
	type got struct {
		code int
		echo string
		body string
	}
	res := map[string]*got{"a": {}, "b": {}}
	do := func(id string) {
		rec := httptest.NewRecorder()
		req := httptest.NewRequest("POST", "http://client/", strings.NewReader("body-of-"+id))
		req.Header.Set("Id", id)
		b.ServeHTTP(rec, req)
		*res[id] = got{rec.Code, rec.Header().Get("X-Echo"), rec.Body.String()}
	}
	inst := &sched.Instance{Names: []string{"client-a", "client-b"}}
	inst.Bodies = []func(){func() { do("a") }, func() { do("b") }}
	inst.Check = func(*vrt.Exec) []vrt.Failure {
		var f []vrt.Failure
		for _, w := range wrong {
			f = append(f, fail("cross-talk:buffer-request", "%s", w))
		}
		for id, g := range res {
			if g.code != 200 || g.echo != id || g.body != "answer-for-"+id {
				f = append(f, fail("cross-talk:buffer-response", "client %s received status %d, X-Echo %q, body %q", id, g.code, g.echo, g.body))
			}
		}
		if attempts["a"] != 2 || attempts["b"] != 2 {
			f = append(f, fail("lost-update:buffer", "each request fails once and is retried once: attempts %v", attempts))
		}
		return f
	}
	return inst
}

// forwarder: two requests go through ONE forward.New proxy (a stub transport answers, so nothing but the library's
// own request rewriting runs), both naming forwarding headers in Connection - the rarely taken path. Whatever the
// forwarder keeps between requests or per process must be synchronised.
type stubTransport struct{}

func (stubTransport) RoundTrip(r *http.Request) (*http.Response, error) {
	return &http.Response{StatusCode: 200, Proto: "HTTP/1.1", ProtoMajor: 1, ProtoMinor: 1, Header: http.Header{"X-Backend": {"1"}, "X-Saw-Real-Ip": {r.Header.Get("X-Real-Ip")}},
		Body: io.NopCloser(strings.NewReader("ok")), ContentLength: 2, Request: r}, nil
}

func forwarder() *sched.Instance {
	f := forward.New(true)
	f.Transport = stubTransport{}
	var got [2]string
	// requests and recorders are built here, outside the threads: the standard library's sync.Pools (fmt, textproto)
	// are synchronisation the race detector sees - a thread that formats a string before it calls the middleware can
	// pick up an item the other thread released and thereby an accidental happens-before edge that hides a race
	var recs [2]*httptest.ResponseRecorder
	var reqs [2]*http.Request
	for i := range reqs {
		recs[i] = httptest.NewRecorder()
		reqs[i] = httptest.NewRequest("GET", "http://front.example/p?q=1", nil)
		reqs[i].RemoteAddr = fmt.Sprintf("10.0.0.%d:1234", i+1)
		reqs[i].Header.Set("Connection", "X-Real-Ip, X-Forwarded-Host")
		reqs[i].URL = mustURL("http://backend.internal/x")
	}
	do := func(i int) func() {
		return func() {
			f.ServeHTTP(recs[i], reqs[i])
			got[i] = recs[i].Header().Get("X-Saw-Real-Ip")
		}
	}
	inst := &sched.Instance{Names: []string{"req1", "req2"}}
	inst.Bodies = []func(){do(0), do(1)}
	inst.Check = func(*vrt.Exec) []vrt.Failure {
		for i, g := range got {
			if want := fmt.Sprintf("200/10.0.0.%d", i+1); fmt.Sprintf("%d/%s", recs[i].Code, g) != want {
				return []vrt.Failure{fail("cross-talk:forwarder", "request %d through the forwarder: status/X-Real-Ip seen by the backend = %d/%s, want %s", i+1, recs[i].Code, g, want)}
			}
		}
		return nil
	}
	return inst
}

func stack() *sched.Instance {
	c := &counter{}
	rr, _ := roundrobin.New(okHandler(c, true))
	rb, _ := roundrobin.NewRebalancer(rr)
	rb.UpsertServer(mustURL("http://a"))
	rb.UpsertServer(mustURL("http://b"))
	cb, _ := cbreaker.New(rb, "NetworkErrorRatio() > 0.5")
	rs := ratelimit.NewRateSet()
	rs.Add(time.Second, 10, 10)
	tl, _ := ratelimit.New(cb, extractor(), rs)
	cl, _ := connlimit.New(tl, extractor(), 10)
	tr, _ := trace.New(cl, &lockedWriter{})
	inst := &sched.Instance{Names: []string{"r1", "r2", "admin"}}
	inst.Bodies = []func(){func() { serve(tr) }, func() { serve(tr) }, func() { rb.UpsertServer(mustURL("http://c")); rr.Servers() }}
	inst.Check = func(*vrt.Exec) []vrt.Failure {
		if c.get(0) != 2 {
			return []vrt.Failure{fail("lost-update:stack", "2 requests, handler invoked %d times", c.get(0))}
		}
		return nil
	}
	return inst
}

func Scenarios(tier string) []*sched.Scenario {
	b := 2
	up := false
	if tier == "thorough" {
		b, up = 3, true
	}
	return []*sched.Scenario{
		mk("roundrobin", b, up, roundRobin),
		mk("roundrobin-sticky", b, up, roundRobinSticky),
		mk("roundrobin-refused-admin", b, up, func() *sched.Instance { return roundRobinRefusedAdmin(false) }),
		mk("rebalancer-refused-admin", b, up, func() *sched.Instance { return roundRobinRefusedAdmin(true) }),
		mk("rebalancer", b, up, rebalancer),
		mk("rebalancer-adjusting", b, up, rebalancerAdjusting),
		mk("breaker", b, up, breaker),
		mk("breaker-recovering", b, up, breakerRecovering),
		mk("rtmetrics", b, up, rtMetrics),
		mk("rtmetrics-export", b, up, rtMetricsExport),
		mk("rtmetrics-across-a-bucket-boundary", b, up, rtMetricsAcrossBoundary),
		mk("tokenlimiter", b, up, tokenLimiter),
		mk("tokenlimiter-first-contact", b, up, tokenLimiterFirstContact),
		mk("ttlmap", b, up, ttlMap),
		mk("connlimiter", -1, false, connLimiter),
		mk("tracer", -1, false, tracer),
		mk("buffer-overlap", b, false, bufferOverlap),
		mk("forwarder", -1, false, forwarder),
		mk("stack", b-1, false, stack),
	}
}

func Run(tier string, sh lib.Shard, rep *lib.Report) {
	rep.Rule = "stateless DFS over all schedules with at most the stated number of preemptions (unbounded for the two small harnesses) of 2-4 threads on each real middleware, binary built with -race: the race detector must report nothing in any explored schedule, no deadlock, exact totals at quiescence; non-trivial = schedule with a preemption"
	rep.Assume("A3: memory-model effects beyond what the race detector establishes are not explored", "user-supplied trace sink is synchronised")
	rep.Require("executions_with_preemption")
	bounds := map[string]any{}
	for _, sc := range Scenarios(tier) {
		e := sched.NewExplorer(rep, sh, "c09")
		st := e.Explore(sc)
		rep.Nontrivial += st.WithPreemption
		if !st.Complete {
			rep.Exhaustive = false
		}
		bounds[sc.Name] = fmt.Sprintf("preemption bound %d, unlock points %v", sc.Bound, sc.UnlockPoint)
	}
	rep.Bounds["harnesses"] = bounds
	if e := sched.NewExplorer(rep, sh, "c09"); e.RaceLog == "" {
		rep.DistrustF("C09 must run in the -race build with VERIF_RACELOG set")
	}
}

func Find(prop, name string) *sched.Scenario {
	for _, tier := range []string{"quick", "thorough"} {
		for _, sc := range Scenarios(tier) {
			if sc.Name == name {
				return sc
			}
		}
	}
	return nil
}

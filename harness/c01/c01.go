// Package c01: weighted round-robin proportions. Explicit-state search over pool
// changes and selections on the real RoundRobin (this file) and all interleavings
// of concurrent selectors (c01_sched.go).
package c01

import (
	"fmt"
	"math"
	"net/http"
	"net/http/httptest"
	"net/url"
	"os"
	"sort"
	"strings"

	"github.com/vulcand/oxy/v2/roundrobin"
	"github.com/vulcand/oxy/v2/zverif/lib"
)

type sys struct {
	rr      *roundrobin.RoundRobin
	seen    *url.URL // URL observed by the downstream handler
	handler int      // handler invocations
}

func serverURL(i int) *url.URL {
	u, _ := url.Parse(fmt.Sprintf("http://s%d:80/p", i+1))
	return u
}

func newSys(opts ...roundrobin.LBOption) *sys {
	s := &sys{}
	rr, err := roundrobin.New(http.HandlerFunc(func(w http.ResponseWriter, r *http.Request) {
		s.handler++
		s.seen = r.URL
		w.WriteHeader(200)
	}), opts...)
	if err != nil {
		panic(err)
	}
	s.rr = rr
	return s
}

// pick makes one selection, through NextServer (via=0) or ServeHTTP (via=1).
// Returns the chosen server host or "" with an error flag.
func (s *sys) pick(via int) (string, bool) {
	if via == 0 {
		u, err := s.rr.NextServer()
		if err != nil {
			return "", false
		}
		return u.Host, true
	}
	before := s.handler
	rec := httptest.NewRecorder()
	req := httptest.NewRequest("GET", "http://client/", nil)
	s.rr.ServeHTTP(rec, req)
	if s.handler == before {
		if rec.Code < 400 {
			return fmt.Sprintf("status%d-without-handler", rec.Code), false
		}
		return "", false
	}
	return s.seen.Host, true
}

func gcd(a, b int) int {
	for b != 0 {
		a, b = b, a%b
	}
	return a
}

// checkWindow verifies the property from the current state: with the pool left
// unchanged, the next W = sum(w)/g selections contain server i exactly w_i/g times.
func checkWindow(s *sys, prop string, what func() map[string]any, rep *lib.Report) {
	weights := map[string]int{}
	var hosts []string
	sum, g := 0, 0
	for _, u := range s.rr.Servers() {
		w, ok := s.rr.ServerWeight(u)
		if !ok {
			rep.Violate(prop+":rr:weight-of-member-unknown", "ServerWeight does not know a server listed by Servers()", what())
			return
		}
		weights[u.Host] = w
		hosts = append(hosts, u.Host)
		sum += w
		g = gcd(g, w)
	}
	sort.Strings(hosts)
	if g == 0 {
		// empty or all-zero pool: outside C01's premise ("not all zero"); C02 checks it
		rep.Count("states_unservable_pool_skipped")
		return
	}
	W := 0 // sum(w_i/g): computed term by term, the plain sum may exceed the integer range for huge weights
	for _, h := range hosts {
		W += weights[h] / g
	}
	got := map[string]int{}
	for k := 0; k < W; k++ {
		h, ok := s.pick(k % 2)
		if !ok {
			rep.Violate(prop+":rr:selection-failed", fmt.Sprintf("selection %d of %d failed for pool %v", k, W, weights), what())
			return
		}
		got[h]++
	}
	rep.Count("windows_checked")
	if g > 1 {
		rep.Count("windows_with_common_factor")
	}
	for _, h := range hosts {
		if weights[h] == 0 {
			rep.Count("windows_with_zero_weight_server")
			break
		}
	}
	for h, n := range got {
		if _, member := weights[h]; !member {
			rep.Violate(prop+":rr:non-member-selected", fmt.Sprintf("selected %q which is not in pool %v", h, weights), what())
			return
		}
		_ = n
	}
	for _, h := range hosts {
		if got[h] != weights[h]/g {
			kind := "disproportionate-window"
			if weights[h] == 0 {
				kind = "zero-weight-selected"
			}
			rep.Violate(prop+":rr:"+kind, fmt.Sprintf("pool %v: the next %d selections chose %s %d times, want %d (all: %v)", weights, W, h, got[h], weights[h]/g, got), what())
			return
		}
	}
}

func model(nservers int, ws []int) *lib.Model[*sys] {
	ops := []string{"NextServer", "ServeHTTP"}
	type opd struct{ kind, srv, w int }
	desc := []opd{{0, 0, 0}, {1, 0, 0}}
	for i := 0; i < nservers; i++ {
		ops = append(ops, fmt.Sprintf("Remove(s%d)", i+1))
		desc = append(desc, opd{2, i, 0})
	}
	for _, w := range ws {
		for i := 0; i < nservers; i++ {
			ops = append(ops, fmt.Sprintf("Upsert(s%d,%d)", i+1, w))
			desc = append(desc, opd{3, i, w})
		}
	}
	m := &lib.Model[*sys]{Name: fmt.Sprintf("rr/servers=%d/weights=%v", nservers, ws), Ops: ops, Deadline: lib.Deadline}
	m.New = func() *sys { return newSys() }
	m.Apply = func(s *sys, op int) string {
		d := desc[op]
		switch d.kind {
		case 0, 1:
			h, ok := s.pick(d.kind)
			return fmt.Sprintf("%s/%v", h, ok)
		case 2:
			u := serverURL(d.srv)
			defer lib.ReuseURL(u) // the caller's value, overwritten once the call has returned
			return fmt.Sprint(s.rr.RemoveServer(u))
		default:
			u := serverURL(d.srv)
			defer lib.ReuseURL(u)
			return fmt.Sprint(s.rr.UpsertServer(u, roundrobin.Weight(d.w)))
		}
	}
	dumper := lib.Dumper{}
	m.Key = func(s *sys) string { return dumper.Dump(s.rr) }
	// A REFUSED pool operation (its error says the pool was left as it was) does not change the pool: every window of W
	// consecutive selections that SPANS it must be exactly proportional too. The windows are rebuilt on a fresh
	// instance (the searched state must not be disturbed): the selections made since the last successful pool
	// change, the refused operation, and as many further selections as complete each window.
	m.OnTransition = func(_ *sys, hist []int, obs []string, rep *lib.Report) {
		last := len(hist) - 1
		if k := desc[hist[last]].kind; k < 2 || obs[last] == "<nil>" {
			return
		}
		var pre []string // selections before the refused operation, oldest first
		for i := last - 1; i >= 0; i-- {
			d := desc[hist[i]]
			if d.kind >= 2 {
				if obs[i] == "<nil>" {
					break // a successful pool change: windows do not reach across it
				}
				continue
			}
			if !strings.HasSuffix(obs[i], "/true") {
				break
			}
			pre = append([]string{strings.TrimSuffix(obs[i], "/true")}, pre...)
		}
		if len(pre) == 0 {
			return
		}
		s2 := m.New()
		for _, o := range hist {
			m.Apply(s2, o)
		}
		weights := map[string]int{}
		g, W := 0, 0
		for _, u := range s2.rr.Servers() {
			w, _ := s2.rr.ServerWeight(u)
			weights[u.Host] = w
			g = gcd(g, w)
		}
		if g == 0 {
			return
		}
		for _, w := range weights {
			W += w / g
		}
		if len(pre) > W-1 {
			pre = pre[len(pre)-(W-1):]
		}
		seq := append([]string{}, pre...)
		for k := 0; k < W-1; k++ {
			h, ok := s2.pick(k % 2)
			if !ok {
				return // checkWindow reports failing selections
			}
			seq = append(seq, h)
		}
		rep.Count("windows_spanning_a_refused_pool_operation")
		for start := 0; start+W <= len(seq); start++ {
			got := map[string]int{}
			for _, h := range seq[start : start+W] {
				got[h]++
			}
			for h, w := range weights {
				if got[h] != w/g {
					rep.Violate("C01:rr:disproportionate-window:across-refused-operation", fmt.Sprintf("pool %v: %s was refused (%s) and left the pool unchanged, yet the %d consecutive selections %v around it chose %s %d times, want %d", weights, m.Ops[hist[last]], obs[last], W, seq[start:start+W], h, got[h], w/g),
						map[string]any{"engine": "xstate", "part": "c01", "servers": nservers, "weights": ws, "ops": m.OpNames(hist)})
					return
				}
			}
		}
	}
	m.Check = func(s *sys, hist []int, obs []string, rep *lib.Report) {
		checkWindow(s, "C01", func() map[string]any {
			return map[string]any{"engine": "xstate", "part": "c01", "servers": nservers, "weights": ws, "ops": m.OpNames(hist)}
		}, rep)
	}
	return m
}

func tierParams(tier string) (int, []int) {
	if tier == "thorough" {
		return 4, []int{0, 1, 2, 3, 4, 6, 12}
	}
	return 3, []int{0, 1, 2, 3, 4, 6}
}

// Run: breadth-first search to fixpoint, distributed over the workers by state hash.
func Run(tier string, sh lib.Shard, rep *lib.Report) {
	n, ws := tierParams(tier)
	m := model(n, ws)
	rep.Bounds["servers"] = n
	rep.Bounds["weights"] = ws
	rep.Bounds["extra_large_weights_thorough"] = tier == "thorough"
	rep.Rule = "BFS to fixpoint over NextServer/ServeHTTP/Upsert(s,w)/Remove(s) on the real RoundRobin, exact state key = reflective dump (pool order, weights, iterator index and level); in every reached state the next W=sum(w)/gcd selections must contain server i exactly w_i/gcd times; non-trivial = windows checked on a servable pool"
	rep.Require("windows_checked", "windows_spanning_a_refused_pool_operation", "windows_with_common_factor", "windows_with_zero_weight_server", "windows_with_interleaved_sticky_requests")
	// one strongly connected state space: level-synchronous distributed BFS over all workers
	r := m.RunDistributed(rep, sh, os.Getenv("VERIF_GANG_DIR"))
	rep.Bounds["search"] = r.Describe()
	if !r.Complete {
		rep.Exhaustive = false
	}
	rep.Sample(2, map[string]any{"model": m.Name, "result": r.Describe()})
	// very unequal weights: fixed pools, every window offset
	if sh.I == 0 {
		// ... and weights near the top of the integer range (with a large common divisor, so that windows stay short)
		big := [][]int{{100, 1}, {1000, 1, 1}, {5, 3, 1}, {12, 8, 6}, {7, 0, 7},
			{7 << 60, 3 << 60, 0}, {5 << 60, 1 << 60}, {1 << 62, 1 << 62, 1 << 61}, {math.MaxInt64 / 5 * 5, math.MaxInt64 / 5 * 2}}
		if tier == "thorough" {
			big = append(big, []int{4096, 1}, []int{1000, 999, 1}, []int{64, 48, 36, 12})
		}
		for _, p := range big {
			W, g := 0, 0
			for _, w := range p {
				g = gcd(g, w)
			}
			for _, w := range p {
				W += w / g
			}
			for off := 0; off < W; off++ {
				s := newSys()
				for i, w := range p {
					s.rr.UpsertServer(serverURL(i), roundrobin.Weight(w))
					if w == 0 { // a new server cannot be given weight 0 directly
						s.rr.UpsertServer(serverURL(i), roundrobin.Weight(0))
					}
				}
				for k := 0; k < off; k++ {
					s.pick(0)
				}
				off := off
				checkWindow(s, "C01", func() map[string]any {
					return map[string]any{"engine": "xstate", "part": "c01", "fixed_pool": p, "offset": off, "replayable": false}
				}, rep)
				rep.Evaluations++
				rep.Count("fixed_pool_window_offsets")
			}
		}
	}
	if sh.I == 0 {
		stickyInterleaved(rep)
	}
	rep.Nontrivial = rep.Counters["windows_checked"]
}

// stickyInterleaved: sticky sessions are enabled and requests that carry a valid affinity cookie (they are routed
// by the cookie, the balancer does not select for them) are interleaved with cookie-less ones in several
// rhythms. The SELECTIONS - the placements of the cookie-less requests - must stay exactly proportional.
func stickyInterleaved(rep *lib.Report) {
	for _, pool := range [][]int{{1, 1}, {3, 2}, {2, 1, 0}, {1, 1, 1}, {4, 2}} {
		for _, rhythm := range [][2]int{{1, 1}, {1, 2}, {1, 3}, {2, 1}, {3, 1}} { // {sticky requests, cookie-less requests} per round
			W, g := 0, 0
			for _, w := range pool {
				g = gcd(g, w)
			}
			for _, w := range pool {
				W += w / g
			}
			for off := 0; off < W; off++ {
				s := newSys(roundrobin.EnableStickySession(roundrobin.NewStickySession("sid")))
				for i, w := range pool {
					s.rr.UpsertServer(serverURL(i), roundrobin.Weight(w))
					if w == 0 {
						s.rr.UpsertServer(serverURL(i), roundrobin.Weight(0))
					}
				}
				for k := 0; k < off; k++ {
					s.pick(1)
				}
				got := map[string]int{}
				n := 0
				for n < W {
					for k := 0; k < rhythm[0]; k++ {
						req := httptest.NewRequest("GET", "http://client/", nil)
						req.AddCookie(&http.Cookie{Name: "sid", Value: serverURL(0).String()})
						s.rr.ServeHTTP(httptest.NewRecorder(), req)
					}
					for k := 0; k < rhythm[1] && n < W; k++ {
						h, ok := s.pick(1)
						if !ok {
							h = "refused"
						}
						got[h]++
						n++
					}
				}
				rep.Evaluations++
				rep.Count("windows_with_interleaved_sticky_requests")
				for i, w := range pool {
					if got[serverURL(i).Host] != w/g {
						rep.Violate("C01:rr:disproportionate-window:sticky-requests-interleaved", fmt.Sprintf("pool %v, sticky sessions on, %d cookie-bearing request(s) before every %d cookie-less one(s), offset %d: the next %d selections chose %s %d times, want %d (all: %v)",
							pool, rhythm[0], rhythm[1], off, W, serverURL(i).Host, got[serverURL(i).Host], w/g, got),
							map[string]any{"engine": "xstate", "part": "c01", "fixed_pool": pool, "offset": off, "replayable": false})
						return
					}
				}
			}
		}
	}
}

// Replay re-executes a recorded history.
func Replay(rp map[string]any) (bool, string) {
	n := int(rp["servers"].(float64))
	var ws []int
	for _, w := range rp["weights"].([]any) {
		ws = append(ws, int(w.(float64)))
	}
	m := model(n, ws)
	hist, err := m.ParseOps(rp["ops"])
	if err != nil {
		return false, err.Error()
	}
	return m.ReplayHistory(hist, lib.NewReport("C01", "replay"))
}

package fwd

import (
	"fmt"
	"net/http"
	"net/http/httptest"
	"net/url"
	"strings"
	"time"

	"github.com/vulcand/oxy/v2/forward"
	"github.com/vulcand/oxy/v2/roundrobin"
	"github.com/vulcand/oxy/v2/roundrobin/stickycookie"
	"github.com/vulcand/oxy/v2/zverif/lib"
)

// StickyThroughForwarder (part of C11's check): the balancer with sticky sessions in front of the REAL forwarder and
// a raw TCP backend. A client without a cookie must receive a fresh affinity cookie for the server that was chosen
// - whatever that server answers: a plain response, another status, or an informational (103) response first.
func StickyThroughForwarder(rep *lib.Report) {
	b := NewBackend()
	defer b.Close()
	bu := &url.URL{Scheme: "http", Host: b.Addr}
	plain := []byte("HTTP/1.1 200 OK\r\nContent-Length: 2\r\nX-Backend: yes\r\n\r\nok")
	scripts := []struct {
		name  string
		steps []step
	}{
		{"plain-200", []step{{stepWrite, plain}}},
		{"404-with-own-cookie", []step{{stepWrite, []byte("HTTP/1.1 404 Not Found\r\nContent-Length: 0\r\nSet-Cookie: app=1\r\n\r\n")}}},
		{"informational-103-then-200", []step{{stepWrite, earlyHints}, {stepWrite, plain}}},
	}
	aes, err := stickycookie.NewAESValue([]byte("95Bx9JkKX3xbd7z3"), time.Hour)
	if err != nil {
		panic(err)
	}
	for _, front := range []string{"roundrobin", "rebalancer"} {
		for _, enc := range []struct {
			name string
			cv   stickycookie.CookieValue
		}{{"raw", &stickycookie.RawValue{}}, {"aes+ttl", aes}} {
			for _, sc := range scripts {
				f := forward.New(false)
				f.Transport = &http.Transport{ResponseHeaderTimeout: 20 * time.Second, MaxIdleConns: 1, IdleConnTimeout: time.Second}
				ss := roundrobin.NewStickySession("sid").SetCookieValue(enc.cv)
				var h http.Handler
				if front == "roundrobin" {
					rr, _ := roundrobin.New(f, roundrobin.EnableStickySession(ss))
					rr.UpsertServer(bu)
					h = rr
				} else {
					rr, _ := roundrobin.New(f)
					rb, _ := roundrobin.NewRebalancer(rr, roundrobin.RebalancerStickySession(ss))
					rb.UpsertServer(bu)
					h = rb
				}
				b.Drain()
				b.Play(sc.steps)
				// the client's side with net/http's semantics for informational responses (see clientView)
				cv := &clientView{h: http.Header{}}
				var pan any
				func() {
					defer func() { pan = recover() }()
					h.ServeHTTP(cv, httptest.NewRequest("GET", "http://client/x", nil))
				}()
				final := cv.final
				if final == nil {
					final = cv.h
				}
				rep.Evaluations++
				rep.Count("sticky_exchanges_through_the_real_forwarder")
				what := map[string]any{"engine": "enum", "part": "c11", "mode": "through-forwarder", "front": front, "encoding": enc.name, "backend": sc.name, "replayable": false}
				got := ""
				for _, c := range (&http.Response{Header: final}).Cookies() {
					if c.Name == "sid" {
						got = c.Value
					}
				}
				switch {
				case pan != nil || b.Received(5*time.Second) == nil:
					rep.Violate("C11:through-forwarder:exchange-failed", fmt.Sprintf("[%s, %s, backend %s] status %d panic %v", front, enc.name, sc.name, cv.code, pan), what)
				case got == "":
					rep.Violate(fmt.Sprintf("C11:no-cookie-issued:backend-%s:%s:%s", sc.name, front, enc.name),
						fmt.Sprintf("[%s, %s] a client without a cookie was balanced to %s, which answered %s: the response carries no affinity cookie (Set-Cookie: %q)", front, enc.name, bu, strings.ReplaceAll(sc.name, "-", " "), final.Values("Set-Cookie")), what)
				}
			}
		}
	}
}

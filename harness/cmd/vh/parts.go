package main

import (
	"github.com/vulcand/oxy/v2/zverif/c17"
)

func init() {
	parts["c17"] = c17.Run
	replays["c17"] = c17.Replay
}

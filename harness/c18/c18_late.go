//go:build verif

package c18

import (
	"fmt"
	"net/http"
	"net/http/httptest"
	"strings"
	"time"

	"github.com/vulcand/oxy/v2/cbreaker"
	"github.com/vulcand/oxy/v2/internal/holsterv4/clock"
	"github.com/vulcand/oxy/v2/zverif/lib"
)

// A completion recorded AFTER the trip, during the fallback period: request A is in flight (inside the protected
// handler) when request B - issued from inside A's handler, i.e. overlapping it, sequential and deterministic -
// fails and trips the breaker; A then fails too. A's response is recorded after the trip: it belongs to "the
// responses recorded since the last trip". When recovery lets the first request through (a 200) and the condition
// is evaluated, the window holds A's 500 and that 200: ResponseCodeRatio(500,600,0,600) >= 0.5 holds and the
// breaker must trip again. Run for several (fallback, recovery) pairs; the counters' 10s window always still holds A.

func stateName(cb *cbreaker.CircuitBreaker) string {
	s := cb.String()
	i := strings.Index(s, "state=")
	if i < 0 {
		return s
	}
	s = s[i+6:]
	if j := strings.IndexAny(s, ",)"); j >= 0 {
		s = s[:j]
	}
	return s
}

func lateCompletionOnce(fallback, recovery time.Duration) (bool, string) {
	clock.Freeze(base)
	var cb *cbreaker.CircuitBreaker
	do := func(kind string) int {
		rec := httptest.NewRecorder()
		req := httptest.NewRequest("GET", "http://x/", nil)
		req.Header.Set("Kind", kind)
		cb.ServeHTTP(rec, req)
		return rec.Code
	}
	nestedB := 0
	h := http.HandlerFunc(func(w http.ResponseWriter, r *http.Request) {
		switch r.Header.Get("Kind") {
		case "A":
			nestedB = do("B") // B overlaps A: it arrives, fails and completes while A is in flight
			w.WriteHeader(500)
		case "B":
			w.WriteHeader(500)
		default:
			w.WriteHeader(200)
		}
	})
	var err error
	cb, err = cbreaker.New(h, "ResponseCodeRatio(500, 600, 0, 600) >= 0.5", cbreaker.FallbackDuration(fallback), cbreaker.RecoveryDuration(recovery), cbreaker.CheckPeriod(100*time.Millisecond))
	if err != nil {
		panic(err)
	}
	do("ok")
	clock.Advance(150 * time.Millisecond)
	a := do("A")
	if nestedB != 500 || a != 500 || stateName(cb) != "tripped" {
		return false, fmt.Sprintf("HARNESS: the overlapping failures did not trip the breaker as planned (B=%d A=%d, %s)", nestedB, a, cb.String())
	}
	clock.Advance(fallback + time.Millisecond)
	if c := do("ok"); c != http.StatusServiceUnavailable || stateName(cb) != "recovering" {
		return false, fmt.Sprintf("HARNESS: the first request after the fallback period did not start the recovery (status %d, %s)", c, cb.String())
	}
	served := false
	for k := 0; k < 40 && !served; k++ {
		clock.Advance(150 * time.Millisecond)
		served = do("ok") == 200
	}
	if !served {
		return false, "HARNESS: the ramp let nothing through"
	}
	if st := stateName(cb); st != "tripped" {
		return true, fmt.Sprintf("fallback %v, recovery %v: response A (500) was recorded after the trip, %v before this evaluation; the first response let through by the ramp was a 200 and the condition was evaluated (check period 100ms elapsed): ResponseCodeRatio(500,600,0,600) over the responses recorded since the last trip is 1/2 >= 0.5, yet the breaker is %s", fallback, recovery, clock.Now().Sub(base.Add(150*time.Millisecond)), cb.String())
	}
	return false, "re-tripped"
}

var lateConfigs = [][2]time.Duration{{2 * time.Second, 4 * time.Second}, {time.Second, 2 * time.Second}, {3 * time.Second, 10 * time.Second}}

func lateCompletions(rep *lib.Report) {
	for i, c := range lateConfigs {
		bad, detail := lateCompletionOnce(c[0], c[1])
		rep.Evaluations++
		if strings.HasPrefix(detail, "HARNESS") {
			rep.DistrustF("late completion scenario %d: %s", i, detail)
			continue
		}
		rep.Count("late_completion_scenarios")
		if bad {
			rep.Violate("C18:condition-held-but-not-tripped:completion-recorded-during-fallback", detail,
				map[string]any{"engine": "enum", "binary": "vsched", "part": "c18", "mode": "late-completion", "config": i})
		}
	}
}

func replayLate(rp map[string]any) (bool, string) {
	i := 0
	if f, ok := rp["config"].(float64); ok {
		i = int(f)
	}
	bad, detail := lateCompletionOnce(lateConfigs[i][0], lateConfigs[i][1])
	if bad {
		return true, "C18:condition-held-but-not-tripped:completion-recorded-during-fallback :: " + detail
	}
	return false, detail
}

// Package c20: transparency of middleware compositions. Every stack of depth <= 3
// (5 in the thorough tier) over the eight oxy middlewares is served by a real
// net/http server and exercised by a raw TCP client, differentially against the
// bare handler; plus, per stack and position, one configuration in which exactly
// that middleware intervenes.
package c20

import (
	"bufio"
	"bytes"
	"fmt"
	"io"
	"net"
	"net/http"
	"net/http/httptest"
	"net/url"
	"sort"
	"strings"
	"sync"
	"sync/atomic"
	"time"

	"github.com/vulcand/oxy/v2/buffer"
	"github.com/vulcand/oxy/v2/cbreaker"
	"github.com/vulcand/oxy/v2/connlimit"
	"github.com/vulcand/oxy/v2/internal/holsterv4/clock"
	"github.com/vulcand/oxy/v2/ratelimit"
	"github.com/vulcand/oxy/v2/roundrobin"
	"github.com/vulcand/oxy/v2/stream"
	"github.com/vulcand/oxy/v2/trace"
	"github.com/vulcand/oxy/v2/utils"
	"github.com/vulcand/oxy/v2/zverif/lib"
)

var kinds = []string{"stream", "trace", "connlimit", "ratelimit", "cbreaker", "roundrobin", "rebalancer", "buffer"}

var canIntervene = map[string]int{"connlimit": 429, "ratelimit": 429, "cbreaker": 503, "roundrobin": -400, "rebalancer": -400, "buffer": 413}

type behaviour struct {
	status int // 0 implicit
	hdr    int // 0 none, 1 multi-valued, 2 explicit Content-Length, 3 header map built by hand (suppressed Date/Content-Type, non-canonical key)
	body   int // 0 none, 1 small, 2 three writes
	mode   int // 0 plain, 1 flush between writes, 2 hijack, 3 informational 103 before the final status
}

func (b behaviour) String() string {
	return fmt.Sprintf("status=%d hdr=%d body=%d mode=%s", b.status, b.hdr, b.body, modeNames[b.mode])
}

var modeNames = []string{"plain", "flush", "hijack", "early-hints", "flush-first", "announced-trailer"}

func behaviours() []behaviour {
	var out []behaviour
	for _, st := range []int{0, 200, 404, 500} {
		for h := 0; h < 4; h++ {
			for b := 0; b < 3; b++ {
				out = append(out, behaviour{st, h, b, 0})
			}
		}
	}
	out = append(out, behaviour{200, 1, 2, 1}, behaviour{0, 0, 2, 1}, behaviour{200, 0, 0, 2},
		behaviour{404, 1, 1, 3}, behaviour{500, 0, 2, 3}, behaviour{0, 0, 1, 3},
		// the handler's FIRST action on the writer is Flush (an event stream opening: headers set, implicit 200 pushed
		// out), followed by a superfluous WriteHeader(500) that net/http ignores because the response is committed
		behaviour{0, 1, 1, 4}, behaviour{0, 0, 2, 4},
		// a trailer announced in the Trailer header and given its value after the status line has gone out (a checksum, an
		// outcome): with a body, with an empty Write only, and with NO Write at all
		behaviour{200, 0, 2, 5}, behaviour{200, 0, 0, 5}, behaviour{200, 1, 1, 5})
	return out
}

func bodyParts(b int) []string {
	switch b {
	case 1:
		return []string{"small-body"}
	case 2:
		return []string{"part-one|", "part-two|", "part-three"}
	}
	return nil
}

// probe is what the innermost handler reports about the writer it was given.
type probe struct {
	invoked  int32
	flusher  int32
	hijacker int32
}

type world struct {
	srv     *lib.Server
	handler atomic.Value // http.Handler currently served
	cur     behaviour
	p       probe
	arrived chan struct{} // client tells the handler that the flushed chunk arrived
	stream  bool          // the stack under test is expected to stream (no buffer in it)
	head    bool          // the next exchanges are HEAD requests
	mu      sync.Mutex
}

func (w *world) inner() http.Handler {
	return http.HandlerFunc(func(rw http.ResponseWriter, r *http.Request) {
		atomic.AddInt32(&w.p.invoked, 1)
		b := w.cur
		fl, isFl := rw.(http.Flusher)
		hj, isHj := rw.(http.Hijacker)
		if isFl {
			atomic.StoreInt32(&w.p.flusher, 1)
		}
		if isHj {
			atomic.StoreInt32(&w.p.hijacker, 1)
		}
		if r.Body != nil {
			io.Copy(io.Discard, r.Body)
		}
		if b.mode == 2 {
			if !isHj {
				rw.WriteHeader(599)
				return
			}
			conn, _, err := hj.Hijack()
			if err != nil {
				rw.WriteHeader(598)
				return
			}
			conn.Write([]byte("HTTP/1.1 200 OK\r\nContent-Length: 8\r\nX-Hijacked: yes\r\nConnection: close\r\n\r\nhijacked"))
			conn.Close()
			return
		}
		parts := bodyParts(b.body)
		switch b.hdr {
		case 1:
			rw.Header().Add("X-Multi", "one")
			rw.Header().Add("X-Multi", "two")
			rw.Header().Set("X-Single", "s")
		case 2:
			rw.Header().Set("Content-Length", fmt.Sprint(len(strings.Join(parts, ""))))
		case 3:
			// what net/http documents: a nil entry suppresses an automatic header; direct map
			// assignment keeps the key exactly as written
			rw.Header()["Date"] = nil
			rw.Header()["Content-Type"] = nil
			rw.Header()["x-lower-case"] = []string{"kept-as-written"}
		}
		if b.mode == 3 {
			rw.Header().Set("Link", "</style.css>; rel=preload")
			rw.WriteHeader(http.StatusEarlyHints) // informational: the final status is still to come
			rw.Header().Del("Link")
		}
		if b.mode == 4 && isFl {
			fl.Flush()
			rw.WriteHeader(http.StatusInternalServerError)
		}
		if b.mode == 5 {
			rw.Header().Set("Trailer", "X-Outcome")
		}
		if b.status != 0 {
			rw.WriteHeader(b.status)
		}
		if b.mode == 5 {
			defer func() { rw.Header().Set("X-Outcome", "complete") }()
		}
		for i, p := range parts {
			rw.Write([]byte(p))
			if b.mode == 1 && i == 0 && isFl {
				fl.Flush()
				if !w.stream {
					continue // below a buffer nothing is expected to arrive early: do not wait for it
				}
				select { // streaming: the client must be able to see this chunk before we go on
				case <-w.arrived:
				case <-time.After(5 * time.Second):
				}
			}
		}
	})
}

type stackCfg struct {
	connLimit int64 // 0: 100
	kinds     []string
	intervene int  // index of the middleware configured to intervene, -1 none
	verbose   bool // every middleware gets its verbose/debug option and a logger that formats its arguments
}

func (s stackCfg) String() string {
	return fmt.Sprintf("%s intervene=%d", strings.Join(s.kinds, ">"), s.intervene)
}

func extractor() utils.SourceExtractor {
	ex, err := utils.NewExtractor("client.ip")
	if err != nil {
		panic(err)
	}
	return ex
}

// weightedExtractor: the source of the connection limiter charges every request SEVEN connections (the interface
// lets an extractor return any amount; "usually 1"): whatever is charged when a request arrives is given back when
// it has returned, so a limiter that serves its requests one after the other never reaches its limit.
func weightedExtractor() utils.SourceExtractor {
	ex := extractor()
	return utils.ExtractorFunc(func(r *http.Request) (string, int64, error) {
		tok, _, err := ex.Extract(r)
		return tok, 7, err
	})
}

// build wraps h with the middlewares, outermost first.
func build(cfg stackCfg, h http.Handler) (http.Handler, error) {
	cur := h
	for i := len(cfg.kinds) - 1; i >= 0; i-- {
		bad := cfg.intervene == i
		var err error
		switch cfg.kinds[i] {
		case "stream":
			if cfg.verbose {
				cur, err = stream.New(cur, stream.Verbose(true), stream.Logger(lib.FormatLogger{}))
			} else {
				cur, err = stream.New(cur)
			}
		case "trace":
			if cfg.verbose {
				cur, err = trace.New(cur, io.Discard, trace.Logger(lib.FormatLogger{}), trace.RequestHeaders("Host"), trace.ResponseHeaders("X-Multi"))
			} else {
				cur, err = trace.New(cur, io.Discard)
			}
		case "connlimit":
			limit := int64(100)
			if cfg.connLimit > 0 {
				limit = cfg.connLimit
			}
			if bad {
				limit = 0
			}
			if cfg.verbose {
				cur, err = connlimit.New(cur, weightedExtractor(), limit, connlimit.Verbose(true), connlimit.Logger(lib.FormatLogger{}))
			} else {
				cur, err = connlimit.New(cur, weightedExtractor(), limit)
			}
		case "ratelimit":
			rs := ratelimit.NewRateSet()
			if bad {
				rs.Add(time.Hour, 1, 1)
			} else {
				rs.Add(time.Second, 1000, 1000)
			}
			if cfg.verbose {
				cur, err = ratelimit.New(cur, extractor(), rs, ratelimit.Logger(lib.FormatLogger{}))
			} else {
				cur, err = ratelimit.New(cur, extractor(), rs)
			}
		case "cbreaker":
			cond := "NetworkErrorRatio() > 0.5"
			if bad {
				cond = "ResponseCodeRatio(500, 600, 0, 600) > 0.5"
			}
			if cfg.verbose {
				cur, err = cbreaker.New(cur, cond, cbreaker.Verbose(true), cbreaker.Logger(lib.FormatLogger{}))
			} else {
				cur, err = cbreaker.New(cur, cond)
			}
		case "roundrobin":
			var rr *roundrobin.RoundRobin
			if cfg.verbose {
				rr, err = roundrobin.New(cur, roundrobin.Verbose(true), roundrobin.Logger(lib.FormatLogger{}))
			} else {
				rr, err = roundrobin.New(cur)
			}
			if err == nil && !bad {
				rr.UpsertServer(&url.URL{Scheme: "http", Host: "backend-a"})
				rr.UpsertServer(&url.URL{Scheme: "http", Host: "backend-b"})
			}
			cur = rr
		case "rebalancer":
			var rr *roundrobin.RoundRobin
			rr, err = roundrobin.New(cur)
			if err != nil {
				return nil, err
			}
			var rb *roundrobin.Rebalancer
			if cfg.verbose {
				rb, err = roundrobin.NewRebalancer(rr, roundrobin.RebalancerDebug(true), roundrobin.RebalancerLogger(lib.FormatLogger{}))
			} else {
				rb, err = roundrobin.NewRebalancer(rr)
			}
			if err == nil && !bad {
				rb.UpsertServer(&url.URL{Scheme: "http", Host: "backend-a"})
				rb.UpsertServer(&url.URL{Scheme: "http", Host: "backend-b"})
			}
			cur = rb
		case "buffer":
			var bo []buffer.Option
			if bad {
				bo = append(bo, buffer.MaxRequestBodyBytes(4))
			}
			if cfg.verbose {
				bo = append(bo, buffer.Verbose(true), buffer.Logger(lib.FormatLogger{}))
			}
			cur, err = buffer.New(cur, bo...)
		}
		if err != nil {
			return nil, err
		}
	}
	return cur, nil
}

type result struct {
	status  int
	header  http.Header
	body    []byte
	nresp   int
	info    []int  // informational (1xx) responses that preceded the final one
	names   string // header names of the final response exactly as they were on the wire
	trailer string // value of the announced trailer X-Outcome as the client received it after the body
	early   bool   // the flushed first chunk was seen before the rest was written
	err     string
	raw     []byte
}

// exchange performs one request over a fresh TCP connection.
func (w *world) exchange(body []byte, wantEarly string) result {
	var res result
	c, err := net.DialTimeout("tcp", w.srv.Addr, 5*time.Second)
	if err != nil {
		res.err = err.Error()
		return res
	}
	defer c.Close()
	c.SetDeadline(time.Now().Add(30 * time.Second))
	method := "GET"
	hdr := ""
	if len(body) > 0 {
		method = "POST"
		hdr = fmt.Sprintf("Content-Length: %d\r\n", len(body))
	} else if w.head {
		method = "HEAD"
	}
	fmt.Fprintf(c, "%s /c20?x=1 HTTP/1.1\r\nHost: front.example\r\nConnection: close\r\n%s\r\n%s", method, hdr, body)
	var buf bytes.Buffer
	tmp := make([]byte, 4096)
	signalled := false
	for {
		n, err := c.Read(tmp)
		buf.Write(tmp[:n])
		if wantEarly != "" && !signalled && bytes.Contains(buf.Bytes(), []byte(wantEarly)) {
			signalled = true
			res.early = !bytes.Contains(buf.Bytes(), []byte("part-three"))
			select {
			case w.arrived <- struct{}{}:
			default:
			}
		}
		if err != nil {
			break
		}
	}
	res.raw = buf.Bytes()
	rs, bodies, perr := lib.ParseResponses(res.raw, method)
	res.nresp = len(rs)
	if perr != nil {
		res.err = perr.Error()
	}
	for len(rs) > 1 && rs[0].StatusCode >= 100 && rs[0].StatusCode < 200 {
		res.info = append(res.info, rs[0].StatusCode)
		rs, bodies = rs[1:], bodies[1:]
		res.nresp--
	}
	if len(rs) > 0 {
		res.status, res.header, res.body = rs[0].StatusCode, rs[0].Header, bodies[0]
		res.trailer = strings.Join(rs[0].Trailer["X-Outcome"], ",")
	}
	res.names = wireHeaderNames(res.raw)
	return res
}

// wireHeaderNames: the header names of the LAST response head in raw, as written on the wire
// (framing headers excluded), so that key case and suppressed automatic headers are compared too.
func wireHeaderNames(raw []byte) string {
	heads := bytes.Split(raw, []byte("HTTP/1.1 "))
	var best []string
	for _, h := range heads[1:] {
		end := bytes.Index(h, []byte("\r\n\r\n"))
		if end < 0 {
			continue
		}
		lines := strings.Split(string(h[:end]), "\r\n")
		if len(lines) > 0 && strings.HasPrefix(lines[0], "1") {
			continue // informational
		}
		var names []string
		for _, l := range lines[1:] {
			if i := strings.Index(l, ":"); i > 0 {
				switch n := l[:i]; n {
				case "Content-Length", "Transfer-Encoding", "Connection":
				default:
					names = append(names, n)
				}
			}
		}
		sort.Strings(names)
		if best == nil {
			best = names
		}
	}
	return strings.Join(best, ",")
}

func sig(h http.Header, explicitCL bool) string {
	var ks []string
	for k := range h {
		switch k {
		case "Date", "Connection", "Transfer-Encoding", "Content-Type":
			continue
		case "Content-Length":
			if !explicitCL {
				continue
			}
		}
		ks = append(ks, k)
	}
	sort.Strings(ks)
	var sb strings.Builder
	for _, k := range ks {
		fmt.Fprintf(&sb, "%s=%v;", k, h[k])
	}
	return sb.String()
}

func stacks(maxDepth int) [][]string {
	var out [][]string
	var rec func(cur []string)
	rec = func(cur []string) {
		if len(cur) > 0 {
			out = append(out, append([]string{}, cur...))
		}
		if len(cur) == maxDepth {
			return
		}
		for _, k := range kinds {
			rec(append(cur, k))
		}
	}
	rec(nil)
	return out
}

func (w *world) reset(b behaviour) {
	w.cur = b
	atomic.StoreInt32(&w.p.invoked, 0)
	atomic.StoreInt32(&w.p.flusher, 0)
	atomic.StoreInt32(&w.p.hijacker, 0)
	select {
	case <-w.arrived:
	default:
	}
}

func runStack(w *world, ks []string, verbose bool, base map[behaviour]result, rep *lib.Report) {
	hasBuffer := false
	for _, k := range ks {
		if k == "buffer" {
			hasBuffer = true
		}
	}
	name := strings.Join(ks, ">")
	if verbose {
		name += " (verbose options, formatting logger)"
	}
	w.stream = !hasBuffer
	// --- transparent configuration
	h, err := build(stackCfg{kinds: ks, intervene: -1, verbose: verbose}, w.inner())
	if err != nil {
		rep.DistrustF("cannot build %s: %v", name, err)
		return
	}
	w.handler.Store(&h)
	// HEAD exchanges: the handler behaves as for GET (announces a length, writes its payload); status and headers -
	// the announced Content-Length above all - must come through as they do from the bare handler
	if !verbose {
		for _, b := range behaviours() {
			if b.mode != 0 || b.body == 0 {
				continue
			}
			bare := w.inner()
			w.handler.Store(&bare)
			w.reset(b)
			w.head = true
			want := w.exchange(nil, "")
			w.handler.Store(&h)
			w.reset(b)
			got := w.exchange(nil, "")
			w.head = false
			rep.Evaluations++
			rep.Count("head_exchanges")
			what := map[string]any{"engine": "enum", "part": "c20", "stack": strings.Join(ks, ">"), "verbose": verbose, "behaviour": b.String(), "mode": "transparent"}
			switch {
			case got.status != want.status:
				rep.Violate("C20:status-altered:head", fmt.Sprintf("[%s] HEAD, %v: status %d through the stack, %d from the bare handler", name, b, got.status, want.status), what)
			case got.header.Get("Content-Length") != want.header.Get("Content-Length") && b.hdr == 2:
				rep.Violate("C20:headers-altered:head", fmt.Sprintf("[%s] HEAD, %v: Content-Length %q through the stack, %q from the bare handler", name, b, got.header.Get("Content-Length"), want.header.Get("Content-Length")), what)
			case sig(got.header, false) != sig(want.header, false):
				rep.Violate("C20:headers-altered:head", fmt.Sprintf("[%s] HEAD, %v: headers %s through the stack, %s from the bare handler", name, b, sig(got.header, false), sig(want.header, false)), what)
			case len(got.body) != 0:
				rep.Violate("C20:body-altered:head", fmt.Sprintf("[%s] HEAD, %v: %d body bytes on the wire", name, b, len(got.body)), what)
			}
		}
	}
	for _, b := range behaviours() {
		if b.mode == 4 && hasBuffer {
			continue // below a buffer nothing is committed before the handler returns
		}
		w.reset(b)
		early := ""
		if b.mode == 1 {
			early = "part-one|"
		}
		res := w.exchange(nil, early)
		rep.Evaluations++
		want := base[b]
		what := map[string]any{"engine": "enum", "part": "c20", "stack": strings.Join(ks, ">"), "verbose": verbose, "behaviour": b.String(), "mode": "transparent"}
		cls := modeNames[b.mode]
		if b.status == 0 {
			cls += "+implicit-status"
		}
		if b.body == 0 && b.mode == 0 {
			cls += "+no-body"
		}
		inner := ks[len(ks)-1]
		inv := atomic.LoadInt32(&w.p.invoked)
		switch {
		case inv != 1:
			rep.Violate("C20:handler-invocations:"+cls, fmt.Sprintf("[%s] %v: handler invoked %d times, want exactly once (client got status %d)", name, b, inv, res.status), what)
		case res.nresp != 1 || res.err != "":
			rep.Violate("C20:not-one-response:"+cls, fmt.Sprintf("[%s] %v: client received %d responses (%s): %.100q", name, b, res.nresp, res.err, res.raw), what)
		case !hasBuffer && fmt.Sprint(res.info) != fmt.Sprint(want.info):
			rep.Violate("C20:informational-responses-altered:"+cls, fmt.Sprintf("[%s] %v: informational responses %v through the stack, %v from the bare handler", name, b, res.info, want.info), what)
		case res.status != want.status:
			rep.Violate("C20:status-altered:"+cls, fmt.Sprintf("[%s] %v: status %d through the stack, %d from the bare handler", name, b, res.status, want.status), what)
		case !bytes.Equal(res.body, want.body):
			rep.Violate("C20:body-altered:"+cls, fmt.Sprintf("[%s] %v: body %.60q through the stack, %.60q from the bare handler", name, b, res.body, want.body), what)
		case b.mode == 5 && res.trailer != want.trailer:
			rep.Violate("C20:trailer-altered:"+cls, fmt.Sprintf("[%s] %v: announced trailer X-Outcome=%q through the stack, %q from the bare handler", name, b, res.trailer, want.trailer), what)
		case sig(res.header, b.hdr == 2) != sig(want.header, b.hdr == 2):
			rep.Violate("C20:headers-altered:"+cls, fmt.Sprintf("[%s] %v: headers %s through the stack, %s from the bare handler", name, b, sig(res.header, b.hdr == 2), sig(want.header, b.hdr == 2)), what)
		case b.mode != 2 && res.names != want.names:
			rep.Violate("C20:header-names-altered:"+cls, fmt.Sprintf("[%s] %v: header names on the wire %q through the stack, %q from the bare handler", name, b, res.names, want.names), what)
		case atomic.LoadInt32(&w.p.hijacker) != 1:
			rep.Violate("C20:hijacker-unavailable:inner="+inner, fmt.Sprintf("[%s]: the handler's ResponseWriter does not offer http.Hijacker", name), what)
		case !hasBuffer && atomic.LoadInt32(&w.p.flusher) != 1:
			rep.Violate("C20:flusher-unavailable:inner="+inner, fmt.Sprintf("[%s]: the handler's ResponseWriter does not offer http.Flusher", name), what)
		case !hasBuffer && b.mode == 1 && !res.early:
			rep.Violate("C20:flush-not-propagated", fmt.Sprintf("[%s] %v: the flushed first chunk did not reach the client before the handler continued", name, b), what)
		default:
			rep.Count("transparent_exchanges")
			if b.mode == 1 && !hasBuffer {
				rep.Count("streamed_chunks_observed_early")
			}
			if b.mode == 2 {
				rep.Count("hijacked_exchanges")
			}
			if b.mode == 3 {
				rep.Count("early_hints_exchanges")
			}
			if b.mode == 4 {
				rep.Count("exchanges_opened_with_a_flush")
			}
			continue
		}
		return
	}
	// --- exactly one middleware intervenes
	for pos, k := range ks {
		wantStatus, ok := canIntervene[k]
		if !ok {
			continue
		}
		h, err := build(stackCfg{kinds: ks, intervene: pos, verbose: verbose}, w.inner())
		if err != nil {
			rep.DistrustF("cannot build %s: %v", name, err)
			return
		}
		w.handler.Store(&h)
		what := map[string]any{"engine": "enum", "part": "c20", "stack": strings.Join(ks, ">"), "verbose": verbose, "mode": "intervene", "position": pos}
		// warm-up where the intervention needs history (token consumed / breaker tripped)
		switch k {
		case "ratelimit":
			w.reset(behaviour{200, 0, 1, 0})
			w.exchange(nil, "")
		case "cbreaker":
			w.reset(behaviour{500, 0, 1, 0})
			w.exchange(nil, "")
		}
		w.reset(behaviour{200, 1, 2, 0})
		var body []byte
		if k == "buffer" {
			body = []byte("0123456789")
		}
		res := w.exchange(body, "")
		rep.Evaluations++
		inv := atomic.LoadInt32(&w.p.invoked)
		okStatus := res.status == wantStatus || (wantStatus == -400 && res.status >= 400)
		switch {
		case inv != 0:
			rep.Violate("C20:intervening-middleware-invoked-handler:"+k, fmt.Sprintf("[%s] %s at position %d intervenes, yet the handler was invoked %d times (status %d)", name, k, pos, inv, res.status), what)
		case res.nresp != 1 || res.err != "":
			rep.Violate("C20:intervention-not-one-response:"+k, fmt.Sprintf("[%s] %s at position %d: client received %d responses (%s): %.100q", name, k, pos, res.nresp, res.err, res.raw), what)
		case !okStatus:
			rep.Violate("C20:intervention-status:"+k, fmt.Sprintf("[%s] %s at position %d: status %d, documented %d", name, k, pos, res.status, wantStatus), what)
		default:
			rep.Count("interventions_checked")
		}
	}
}

// ---- the same stacks in front of a MINIMAL ResponseWriter (no Flusher, Hijacker or CloseNotifier: what a
// handler sees under HTTP/2, a recorder or any wrapper): a handler that probes for those capabilities and
// then answers normally must come through exactly as it does without the stack.

type plainWriter struct {
	h    http.Header
	code int
	sent http.Header
	body bytes.Buffer
}

func (p *plainWriter) Header() http.Header { return p.h }
func (p *plainWriter) WriteHeader(c int) {
	if c >= 100 && c < 200 {
		return
	}
	if p.code == 0 {
		p.code, p.sent = c, p.h.Clone()
	}
}
func (p *plainWriter) Write(b []byte) (int, error) {
	if p.code == 0 {
		p.WriteHeader(200)
	}
	return p.body.Write(b)
}

func probingHandler(bp *behaviour, invoked *int, abort *bool) http.Handler {
	return http.HandlerFunc(func(rw http.ResponseWriter, r *http.Request) {
		*invoked++
		b := *bp
		if *abort {
			panic(http.ErrAbortHandler) // a broken exchange, as a reverse proxy aborts it
		}
		// an upgrade attempt that must fail cleanly: nothing underneath can be hijacked
		if hj, ok := rw.(http.Hijacker); ok {
			if c, _, err := hj.Hijack(); err == nil && c != nil {
				c.Close()
				return
			}
		}
		if cn, ok := rw.(http.CloseNotifier); ok { //nolint:staticcheck
			_ = cn.CloseNotify()
		}
		if b.hdr == 1 {
			rw.Header().Add("X-Multi", "one")
			rw.Header().Add("X-Multi", "two")
		}
		if b.status != 0 {
			rw.WriteHeader(b.status)
		}
		for _, p := range bodyParts(b.body) {
			rw.Write([]byte(p))
			if fl, ok := rw.(http.Flusher); ok {
				fl.Flush()
			}
		}
	})
}

func servePlain(h http.Handler) (pw *plainWriter, pan any) {
	pw = &plainWriter{h: http.Header{}}
	req := httptest.NewRequest("GET", "http://front.example/x", nil)
	req.RemoteAddr = "192.0.2.1:1234"
	func() {
		defer func() { pan = recover() }()
		h.ServeHTTP(pw, req)
	}()
	if pw.code == 0 && pan == nil {
		pw.code, pw.sent = 200, pw.h.Clone()
	}
	return
}

func runPlainWriter(ks []string, verbose bool, rep *lib.Report) {
	name := strings.Join(ks, ">")
	// ONE instance of the stack serves everything below: first a few exchanges that the handler aborts (more than
	// the connection limiter's limit of 3, which sequential traffic never reaches), then every behaviour
	var cur behaviour
	n0, n1, abort, never := 0, 0, false, false
	h, err := build(stackCfg{kinds: ks, intervene: -1, verbose: verbose, connLimit: 3}, probingHandler(&cur, &n1, &abort))
	if err != nil {
		return
	}
	abort = true
	for k := 0; k < 5; k++ {
		servePlain(h)
		rep.Count("aborted_exchanges_before_the_probes")
	}
	abort = false
	for _, b := range behaviours() {
		if b.mode != 0 || b.hdr > 1 {
			continue
		}
		cur = b
		n0, n1 = 0, 0
		want, _ := servePlain(probingHandler(&cur, &n0, &never))
		got, pan := servePlain(h)
		rep.Evaluations++
		rep.Count("exchanges_on_a_minimal_writer")
		what := map[string]any{"engine": "enum", "part": "c20", "stack": name, "verbose": verbose, "behaviour": b.String(), "mode": "minimal-writer"}
		switch {
		case pan != nil:
			rep.Violate("C20:crash-on-minimal-writer", fmt.Sprintf("[%s] %v on a writer without Hijacker/Flusher/CloseNotifier: panic %v", name, b, pan), what)
		case n1 != 1:
			rep.Violate("C20:handler-invocations:minimal-writer", fmt.Sprintf("[%s] %v: handler invoked %d times", name, b, n1), what)
		case got.code != want.code:
			rep.Violate("C20:status-altered:minimal-writer", fmt.Sprintf("[%s] %v: status %d through the stack, %d from the bare handler", name, b, got.code, want.code), what)
		case !bytes.Equal(got.body.Bytes(), want.body.Bytes()):
			rep.Violate("C20:body-altered:minimal-writer", fmt.Sprintf("[%s] %v: body %.60q through the stack, %.60q from the bare handler", name, b, got.body.Bytes(), want.body.Bytes()), what)
		case fmt.Sprint(got.sent["X-Multi"]) != fmt.Sprint(want.sent["X-Multi"]):
			rep.Violate("C20:headers-altered:minimal-writer", fmt.Sprintf("[%s] %v: X-Multi %v through the stack, %v from the bare handler", name, b, got.sent["X-Multi"], want.sent["X-Multi"]), what)
		}
	}
}

func newWorld() *world {
	clock.Freeze(clock.Date(2012, 3, 4, 5, 6, 7, 0, clock.UTC))
	w := &world{arrived: make(chan struct{}, 1)}
	w.srv = lib.StartServer(http.HandlerFunc(func(rw http.ResponseWriter, r *http.Request) {
		h := w.handler.Load().(*http.Handler)
		(*h).ServeHTTP(rw, r)
	}))
	return w
}

func baseline(w *world, rep *lib.Report) map[behaviour]result {
	out := map[behaviour]result{}
	bare := w.inner()
	w.stream = true
	w.handler.Store(&bare)
	for _, b := range behaviours() {
		w.reset(b)
		early := ""
		if b.mode == 1 {
			early = "part-one|"
		}
		r := w.exchange(nil, early)
		if r.nresp != 1 || (b.mode == 1 && !r.early) || (b.mode == 3 && fmt.Sprint(r.info) != "[103]") {
			rep.DistrustF("baseline exchange with the bare handler failed for %v: %d responses, early=%v err=%s", b, r.nresp, r.early, r.err)
		}
		out[b] = r
	}
	return out
}

func Run(tier string, sh lib.Shard, rep *lib.Report) {
	depth := 3
	if tier == "thorough" {
		depth = 5
	}
	ss := stacks(depth)
	rep.Bounds["stacks"] = len(ss)
	rep.Bounds["max_depth"] = depth
	rep.Bounds["handler_behaviours"] = len(behaviours())
	rep.Rule = "every stack of depth <= max over {stream, trace, connlimit, ratelimit, cbreaker, roundrobin, rebalancer(roundrobin), buffer} x every handler behaviour (status incl. implicit x header set x body chunking, flush between writes, hijack) served by a real net/http server to a raw TCP client, compared with the bare handler on the same server; every stack also in front of a minimal ResponseWriter (no Hijacker/Flusher/CloseNotifier) with a handler that probes for those capabilities; per stack and position one configuration in which exactly that middleware intervenes; non-trivial = exchanges through stacks of depth >= 2"
	rep.Assume("frozen clock; Content-Length/Transfer-Encoding framing headers chosen by net/http are not compared unless the handler set Content-Length itself")
	rep.Require("transparent_exchanges", "interventions_checked", "streamed_chunks_observed_early", "hijacked_exchanges", "early_hints_exchanges", "exchanges_opened_with_a_flush", "exchanges_on_a_minimal_writer", "head_exchanges")
	w := newWorld()
	defer w.srv.Close()
	base := baseline(w, rep)
	for i, ks := range ss {
		if !sh.Mine(i) {
			continue
		}
		if lib.Expired() {
			rep.Exhaustive = false
			break
		}
		before := rep.Counters["transparent_exchanges"]
		runStack(w, ks, false, base, rep)
		runStack(w, ks, true, base, rep)
		runPlainWriter(ks, false, rep)
		if len(ks) >= 2 {
			rep.Nontrivial += rep.Counters["transparent_exchanges"] - before
		}
		if i%97 == 0 {
			rep.Sample(4, strings.Join(ks, ">"))
		}
	}
}

func Replay(rp map[string]any) (bool, string) {
	name, _ := rp["stack"].(string)
	rep := lib.NewReport("C20", "replay")
	w := newWorld()
	defer w.srv.Close()
	base := baseline(w, rep)
	if rp["mode"] == "minimal-writer" {
		runPlainWriter(strings.Split(name, ">"), rp["verbose"] == true, rep)
	} else {
		runStack(w, strings.Split(name, ">"), rp["verbose"] == true, base, rep)
	}
	key, _ := rp["key"].(string)
	for _, v := range rep.Violations {
		if v.Key == key {
			return true, v.Key + " :: " + v.Detail
		}
	}
	if len(rep.Violations) > 0 {
		return true, rep.Violations[0].Key + " :: " + rep.Violations[0].Detail
	}
	return false, "stack " + name + " is transparent and decisive"
}

var _ = bufio.NewReader

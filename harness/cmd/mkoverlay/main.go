// mkoverlay generates, from /repo's CURRENT working tree, the `go build -overlay`
// used by the scheduler engine. /repo itself is never written.
//
//   - every non-test .go file of the oxy packages that imports "sync" or
//     "sync/atomic" gets that import redirected to the vsync / vatomic shim;
//   - every `go f(x)` statement becomes vrt.Go(func(){ f(x) }) so that goroutines
//     spawned by the code under test are scheduled threads;
//   - the virtual packages internal/verif/{vrt,vsync} and the clock hook file are
//     added (all guarded by //go:build verif).
package main

import (
	"bytes"
	"encoding/json"
	"flag"
	"fmt"
	"go/ast"
	"go/format"
	"go/parser"
	"go/token"
	"os"
	"path/filepath"
	"strconv"
	"strings"
)

const modPath = "github.com/vulcand/oxy/v2"

func main() {
	repo := flag.String("repo", "/repo", "repository root")
	shim := flag.String("shim", "/verif/shim", "shim sources")
	out := flag.String("out", "", "output directory")
	flag.Parse()
	if err := os.MkdirAll(*out, 0o755); err != nil {
		fail(err)
	}
	replace := map[string]string{}
	// virtual packages
	for _, p := range []struct{ dir, dst string }{
		{"vrt", "internal/verif/vrt"}, {"vsync", "internal/verif/vsync"}, {"vatomic", "internal/verif/vatomic"}, {"clock", "internal/holsterv4/clock"},
	} {
		ents, err := os.ReadDir(filepath.Join(*shim, p.dir))
		if err != nil {
			fail(err)
		}
		for _, e := range ents {
			if strings.HasSuffix(e.Name(), ".go") {
				replace[filepath.Join(*repo, p.dst, e.Name())] = filepath.Join(*shim, p.dir, e.Name())
			}
		}
	}
	n := 0
	err := filepath.Walk(*repo, func(path string, info os.FileInfo, err error) error {
		if err != nil {
			return err
		}
		rel, _ := filepath.Rel(*repo, path)
		if info.IsDir() {
			if strings.HasPrefix(info.Name(), ".") && path != *repo || rel == "testutils" || rel == filepath.Join("internal", "holsterv4", "clock") || rel == filepath.Join("internal", "verif") {
				return filepath.SkipDir
			}
			return nil
		}
		if !strings.HasSuffix(path, ".go") || strings.HasSuffix(path, "_test.go") {
			return nil
		}
		src, err := os.ReadFile(path)
		if err != nil {
			return err
		}
		fset := token.NewFileSet()
		f, err := parser.ParseFile(fset, path, src, parser.ParseComments)
		if err != nil {
			return fmt.Errorf("parse %s: %w", path, err)
		}
		changed := false
		for _, imp := range f.Imports {
			p, _ := strconv.Unquote(imp.Path.Value)
			switch p {
			case "sync":
				imp.Path.Value = strconv.Quote(modPath + "/internal/verif/vsync")
				if imp.Name == nil {
					imp.Name = ast.NewIdent("sync")
				}
				changed = true
			case "sync/atomic":
				imp.Path.Value = strconv.Quote(modPath + "/internal/verif/vatomic")
				if imp.Name == nil {
					imp.Name = ast.NewIdent("atomic")
				}
				changed = true
			}
		}
		needVrt := false
		ast.Inspect(f, func(n ast.Node) bool {
			bs, ok := n.(*ast.BlockStmt)
			if ok {
				rewriteGo(bs.List, &needVrt)
			}
			if cc, ok := n.(*ast.CaseClause); ok {
				rewriteGo(cc.Body, &needVrt)
			}
			if cc, ok := n.(*ast.CommClause); ok {
				rewriteGo(cc.Body, &needVrt)
			}
			return true
		})
		if needVrt {
			changed = true
			addImport(f, "vrtsched", modPath+"/internal/verif/vrt")
		}
		if !changed {
			return nil
		}
		var buf bytes.Buffer
		if err := format.Node(&buf, fset, f); err != nil {
			return err
		}
		dst := filepath.Join(*out, strings.ReplaceAll(rel, string(filepath.Separator), "__"))
		if err := os.WriteFile(dst, buf.Bytes(), 0o644); err != nil {
			return err
		}
		replace[path] = dst
		n++
		return nil
	})
	if err != nil {
		fail(err)
	}
	b, _ := json.MarshalIndent(map[string]any{"Replace": replace}, "", " ")
	if err := os.WriteFile(filepath.Join(*out, "overlay.json"), b, 0o644); err != nil {
		fail(err)
	}
	fmt.Printf("overlay: %d files rewritten, %d entries\n", n, len(replace))
}

func rewriteGo(list []ast.Stmt, need *bool) {
	for i, st := range list {
		gs, ok := st.(*ast.GoStmt)
		if !ok {
			continue
		}
		*need = true
		var fn ast.Expr
		if fl, ok := gs.Call.Fun.(*ast.FuncLit); ok && len(gs.Call.Args) == 0 {
			fn = fl
		} else {
			fn = &ast.FuncLit{Type: &ast.FuncType{Params: &ast.FieldList{}},
				Body: &ast.BlockStmt{List: []ast.Stmt{&ast.ExprStmt{X: gs.Call}}}}
		}
		list[i] = &ast.ExprStmt{X: &ast.CallExpr{
			Fun:  &ast.SelectorExpr{X: ast.NewIdent("vrtsched"), Sel: ast.NewIdent("Go")},
			Args: []ast.Expr{fn}}}
	}
}

func addImport(f *ast.File, name, path string) {
	spec := &ast.ImportSpec{Name: ast.NewIdent(name), Path: &ast.BasicLit{Kind: token.STRING, Value: strconv.Quote(path)}}
	for _, d := range f.Decls {
		if gd, ok := d.(*ast.GenDecl); ok && gd.Tok == token.IMPORT {
			gd.Specs = append(gd.Specs, spec)
			if !gd.Lparen.IsValid() {
				gd.Lparen = gd.Pos()
				gd.Rparen = gd.End()
			}
			return
		}
	}
	f.Decls = append([]ast.Decl{&ast.GenDecl{Tok: token.IMPORT, Specs: []ast.Spec{spec}}}, f.Decls...)
}

func fail(err error) {
	fmt.Fprintln(os.Stderr, "mkoverlay:", err)
	os.Exit(2)
}

package buf

import (
	"bytes"
	"fmt"
	"io"
	"net/http"
	"sort"
	"strings"
	"time"

	"github.com/vulcand/oxy/v2/buffer"
	"github.com/vulcand/oxy/v2/zverif/lib"
)

// ---- retry expressions (programs) and their reference semantics

type expr struct {
	kind  string // atom, and, or
	l, r  *expr
	fn    string // attempts, code, neterr, method
	cmp   string
	ival  int
	sval  string
	paren bool
}

func (e *expr) String() string {
	var s string
	switch e.kind {
	case "atom":
		switch e.fn {
		case "attempts":
			return fmt.Sprintf("Attempts() %s %d", e.cmp, e.ival)
		case "code":
			return fmt.Sprintf("ResponseCode() %s %d", e.cmp, e.ival)
		case "neterr":
			return "IsNetworkError()"
		default:
			return fmt.Sprintf("RequestMethod() %s %q", e.cmp, e.sval)
		}
	case "and":
		s = e.l.String() + " && " + e.r.String()
	default:
		s = e.l.String() + " || " + e.r.String()
	}
	if e.paren {
		return "(" + s + ")"
	}
	return s
}

func cmpInt(c string, a, b int) bool {
	switch c {
	case "<":
		return a < b
	case "<=":
		return a <= b
	case ">":
		return a > b
	case ">=":
		return a >= b
	case "==":
		return a == b
	}
	return a != b
}

// eval: standard boolean and comparison semantics.
func (e *expr) eval(attempt, code int, method string) bool {
	switch e.kind {
	case "atom":
		switch e.fn {
		case "attempts":
			return cmpInt(e.cmp, attempt, e.ival)
		case "code":
			return cmpInt(e.cmp, code, e.ival)
		case "neterr":
			return code == 502 || code == 504
		default:
			if e.cmp == "==" {
				return method == e.sval
			}
			return method != e.sval
		}
	case "and":
		return e.l.eval(attempt, code, method) && e.r.eval(attempt, code, method)
	}
	return e.l.eval(attempt, code, method) || e.r.eval(attempt, code, method)
}

var sixCmps = []string{"<", "<=", ">", ">=", "==", "!="}

func retryAtoms() []*expr {
	var out []*expr
	for _, c := range sixCmps {
		for _, k := range []int{1, 2, 3, 10, 11, 12} {
			out = append(out, &expr{kind: "atom", fn: "attempts", cmp: c, ival: k})
		}
		for _, k := range []int{200, 500, 502} {
			out = append(out, &expr{kind: "atom", fn: "code", cmp: c, ival: k})
		}
	}
	out = append(out, &expr{kind: "atom", fn: "neterr"})
	for _, c := range []string{"==", "!="} {
		for _, m := range []string{"GET", "POST", "get"} {
			out = append(out, &expr{kind: "atom", fn: "method", cmp: c, sval: m})
		}
	}
	return out
}

func retryPrograms(tier string) []*expr {
	as := retryAtoms()
	out := append([]*expr{}, as...)
	s2, s3 := 3, 211
	if tier == "thorough" {
		s2, s3 = 1, 23
	}
	k := 0
	for _, a := range as {
		for _, b := range as {
			for _, op := range []string{"and", "or"} {
				if k%s2 == 0 {
					out = append(out, &expr{kind: op, l: a, r: b})
				}
				k++
			}
		}
	}
	k = 0
	for _, a := range as {
		for _, b := range as {
			for _, c := range as {
				if k%s3 == 0 {
					switch (k / s3) % 6 {
					case 0:
						out = append(out, &expr{kind: "or", l: &expr{kind: "and", l: a, r: b}, r: c})
					case 1:
						out = append(out, &expr{kind: "or", l: a, r: &expr{kind: "and", l: b, r: c}})
					case 2:
						out = append(out, &expr{kind: "and", l: &expr{kind: "or", l: a, r: b, paren: true}, r: c})
					case 3:
						out = append(out, &expr{kind: "and", l: a, r: &expr{kind: "or", l: b, r: c, paren: true}})
					case 4:
						out = append(out, &expr{kind: "and", l: &expr{kind: "and", l: a, r: b}, r: c})
					default:
						out = append(out, &expr{kind: "or", l: &expr{kind: "or", l: a, r: b}, r: c})
					}
				}
				k++
			}
		}
	}
	return out
}

// status sequences: what the handler answers on attempt 1, 2, ... (0 = no explicit status).
func statusSequences() [][]int {
	rep := func(c, n int) []int {
		s := make([]int, n)
		for i := range s {
			s[i] = c
		}
		return s
	}
	var out [][]int
	for _, c := range []int{502, 503, 200, 0, 500, 504} {
		out = append(out, rep(c, 13))
	}
	for _, n := range []int{1, 2, 3, 9, 10, 11} {
		out = append(out, append(rep(502, n), rep(200, 13)...))
		out = append(out, append(rep(503, n), rep(502, 13)...))
		out = append(out, append(rep(0, n), rep(500, 13)...))
		out = append(out, append(rep(200, n), rep(502, 13)...))
	}
	out = append(out, []int{502, 200, 502, 200, 502, 200, 502, 200, 502, 200, 502, 200, 502})
	return out
}

// long-lived Buffer instances: one per retry expression (and verbose flag) serves every method and status
// sequence, one exchange after the other; the handler behind it is swapped per exchange. See c06.go.
type c07instance struct {
	b   *buffer.Buffer
	err error
	cur http.Handler
}

var c07instances = map[string]*c07instance{}

func c07instanceFor(p *expr) *c07instance {
	name := "<no retry option>"
	if p != nil {
		name = p.String()
	}
	key := fmt.Sprintf("%s/%v", name, verboseRun)
	if in, ok := c07instances[key]; ok {
		return in
	}
	in := &c07instance{}
	var opts []buffer.Option
	if verboseRun {
		opts = append(opts, buffer.Verbose(true), buffer.Logger(lib.FormatLogger{}))
	}
	if p != nil {
		opts = append(opts, buffer.Retry(p.String()))
	}
	if len(name)%4 == 3 {
		// every fourth instance keeps 4 bytes of a response in memory: all its attempts' bodies ("attempt-N;") spill
		// to a file - the discarded ones, the final one, and the one delivered when the attempts run out
		opts = append(opts, buffer.MemResponseBodyBytes(4))
	}
	in.b, in.err = buffer.New(http.HandlerFunc(func(w http.ResponseWriter, r *http.Request) { in.cur.ServeHTTP(w, r) }), opts...)
	c07instances[key] = in
	return in
}

func runProgram(p *expr, method string, seq []int, rep *lib.Report) {
	invoked := 0
	h := http.HandlerFunc(func(w http.ResponseWriter, r *http.Request) {
		code := seq[invoked]
		invoked++
		w.Header().Set("X-Attempt", fmt.Sprint(invoked))
		if code != 0 {
			w.WriteHeader(code)
		}
		fmt.Fprintf(w, "attempt-%d;", invoked)
	})
	in := c07instanceFor(p)
	in.cur = h
	b, err := in.b, in.err
	name := "<no retry option>"
	if p != nil {
		name = p.String()
	}
	what := func() map[string]any {
		return map[string]any{"engine": "enum", "part": "c07", "mode": "program", "program": name, "method": method, "statuses": seq, "verbose": verboseRun}
	}
	if err != nil {
		rep.Violate("C07:expression-rejected", fmt.Sprintf("buffer.Retry(%q) rejected: %v", name, err), what())
		return
	}
	raw := lib.RawRequest(method, "/", nil, []byte("hello"), 0)
	req, _ := lib.ParseRequest(raw)
	rec := lib.Serve(b, req)
	rep.Evaluations++
	// reference: expected number of invocations under both readings of an implicit status
	expect := func(implicit int) int {
		if p == nil {
			return 1
		}
		for n := 1; n <= 11; n++ {
			code := seq[n-1]
			if code == 0 {
				code = implicit
			}
			if n > 10 || !p.eval(n, code, method) {
				return n
			}
		}
		return 11
	}
	e0, e200 := expect(0), expect(200)
	if invoked > 11 {
		rep.Violate("C07:more-than-11-attempts", fmt.Sprintf("retry %q: handler invoked %d times", name, invoked), what())
		return
	}
	if invoked != e0 && invoked != e200 {
		rep.Violate("C07:attempt-count-differs-from-expression", fmt.Sprintf("retry %q, %s, statuses %v: handler invoked %d times, the expression read with standard semantics gives %d", name, method, seq[:12], invoked, e0), what())
		return
	}
	if invoked > 1 {
		rep.Count("programs_that_retried")
	}
	if invoked == 11 {
		rep.Count("programs_hitting_the_cap")
	}
	if rec.Panic != nil {
		k := "explicit-status"
		if seq[invoked-1] == 0 {
			k = "implicit-status"
		}
		rep.Violate("C07:panic-writing-response:"+k, fmt.Sprintf("retry %q: final attempt %d (status %d): panic %v", name, invoked, seq[invoked-1], rec.Panic), what())
		return
	}
	wantCode := seq[invoked-1]
	if wantCode == 0 {
		wantCode = 200
	}
	wantBody := fmt.Sprintf("attempt-%d;", invoked)
	if rec.Code != wantCode || rec.Body.String() != wantBody || rec.Header().Get("X-Attempt") != fmt.Sprint(invoked) || len(rec.Header()["X-Attempt"]) != 1 {
		rep.Violate("C07:response-not-the-final-attempts", fmt.Sprintf("retry %q: after %d attempts the client got status %d body %q X-Attempt %v; the final attempt produced status %d body %q", name, invoked, rec.Code, rec.Body.String(), rec.Header()["X-Attempt"], wantCode, wantBody), what())
	}
}

// verboseRun: the non-default Verbose option with a logger that formats its arguments.
var verboseRun bool

// ---- response shapes through a real server and a raw TCP client

type shape struct {
	status  int // 0 = implicit
	headers int
	body    int
	retry   bool // a discarded first attempt (502 with its own markers) precedes
}

var shapeHeaders = []string{"none", "X-A", "duplicate-values", "content-length-n", "content-length-0", "automatic-headers-suppressed"}
var shapeBodies = []string{"none", "1-byte", "3-writes", "over-mem-threshold", "2-writes-then-empty-write", "only-an-empty-write",
	// the body produced by io.Copy from a reader that has no WriteTo (a file, a pipe, an upstream body): reaches an io.ReaderFrom of the writer, if there is one
	"io.Copy-of-a-plain-reader", "io.Copy-of-an-empty-plain-reader", "io.Copy-over-mem-threshold"}

// plainReader hides every method but Read.
type plainReader struct{ r io.Reader }

func (p plainReader) Read(b []byte) (int, error) { return p.r.Read(b) }

func shapeCopied(b int) bool { return b >= 6 }

func (s shape) String() string {
	return fmt.Sprintf("status=%d headers=%s body=%s discarded-attempt=%v", s.status, shapeHeaders[s.headers], shapeBodies[s.body], s.retry)
}

func shapeBody(b int) [][]byte {
	switch b {
	case 1:
		return [][]byte{[]byte("x")}
	case 2:
		return [][]byte{[]byte("first-"), []byte("second-"), []byte("third")}
	case 3:
		return [][]byte{bytes.Repeat([]byte("0123456789abcdef"), 8)} // 128 bytes, memory threshold 32
	case 4:
		return [][]byte{[]byte("hello "), []byte("world"), {}} // e.g. io.WriteString(w, "") of an empty template fragment
	case 5:
		return [][]byte{{}}
	case 6:
		return [][]byte{[]byte("copied-from-a-reader")}
	case 7:
		return [][]byte{{}}
	case 8:
		return [][]byte{bytes.Repeat([]byte("fedcba9876543210"), 8)}
	}
	return nil
}

func shapes() []shape {
	var out []shape
	for _, st := range []int{0, 200, 201, 204, 304, 404, 500, 502, 503, 504} {
		for h := range shapeHeaders {
			for b := range shapeBodies {
				if (st == 204 || st == 304) && b != 0 {
					continue // net/http forbids a body for these
				}
				if h == 4 && b != 0 {
					continue // Content-Length: 0 with a body is a handler bug, not a buffer case
				}
				for _, retry := range []bool{false, true} {
					out = append(out, shape{st, h, b, retry})
				}
			}
		}
	}
	return out
}

func runShape(s shape, addr string, setShape func(shape), rep *lib.Report) {
	setShape(s)
	raw := []byte("GET /shape HTTP/1.1\r\nHost: x\r\nConnection: close\r\n\r\n")
	what := func() map[string]any {
		return map[string]any{"engine": "enum", "part": "c07", "mode": "shape", "shape": s.String(), "verbose": verboseRun, "half_close": lib.HalfCloseAfterRequest}
	}
	var resp []byte
	var hung bool
	for try := 0; try < 5; try++ { // a watchdog hit is re-run before it is believed
		var err error
		resp, hung, err = lib.RawExchange(addr, raw, 30*time.Second)
		if err != nil {
			rep.DistrustF("raw exchange failed: %v", err)
			return
		}
		if !hung {
			break
		}
	}
	rep.Evaluations++
	kind := "explicit-status"
	if s.status == 0 {
		kind = "implicit-status"
	}
	if s.body == 0 && s.headers != 4 && s.status != 204 && s.status != 304 {
		kind += "+no-body"
	}
	if hung {
		rep.Violate("C07:hang:"+kind, fmt.Sprintf("%v: no complete response within 30s (5 tries)", s), what())
		return
	}
	rs, bodies, err := lib.ParseResponses(resp, "GET")
	if err != nil || len(rs) != 1 {
		rep.Violate("C07:not-exactly-one-response:"+kind, fmt.Sprintf("%v: the client received %d well-formed responses (err %v); raw %.120q", s, len(rs), err, resp), what())
		return
	}
	r, body := rs[0], bodies[0]
	wantStatus := s.status
	if wantStatus == 0 {
		wantStatus = 200
	}
	var wantBody []byte
	for _, p := range shapeBody(s.body) {
		wantBody = append(wantBody, p...)
	}
	if r.StatusCode != wantStatus {
		rep.Violate("C07:status-differs:"+kind, fmt.Sprintf("%v: client got status %d, the final attempt chose %d", s, r.StatusCode, wantStatus), what())
		return
	}
	if !bytes.Equal(body, wantBody) {
		rep.Violate("C07:body-differs:"+kind, fmt.Sprintf("%v: client got body %.60q (%d bytes), the final attempt wrote %d bytes", s, body, len(body), len(wantBody)), what())
		return
	}
	wantH := map[string][]string{}
	switch s.headers {
	case 1:
		wantH["X-A"] = []string{"1"}
	case 2:
		wantH["X-Dup"] = []string{"a", "b", "a"}
	}
	wantH["X-Final"] = []string{"yes"}
	if s.headers == 5 {
		for _, k := range []string{"Content-Type", "Date"} {
			if _, present := r.Header[k]; present {
				rep.Violate("C07:headers-differ:"+kind, fmt.Sprintf("%v: the final attempt switched the automatic %s header off, the client received %s: %v", s, k, k, r.Header[k]), what())
				return
			}
		}
	}
	for k, v := range wantH {
		if fmt.Sprint(r.Header[k]) != fmt.Sprint(v) {
			rep.Violate("C07:headers-differ:"+kind, fmt.Sprintf("%v: header %s = %v, the final attempt set %v", s, k, r.Header[k], v), what())
			return
		}
	}
	var extra []string
	for k := range r.Header {
		switch k {
		case "Date", "Content-Length", "Content-Type", "Connection", "Transfer-Encoding":
		default:
			if _, ok := wantH[k]; !ok {
				extra = append(extra, k)
			}
		}
	}
	sort.Strings(extra)
	if len(extra) > 0 {
		rep.Violate("C07:foreign-headers:"+kind, fmt.Sprintf("%v: the client received headers %v which the final attempt did not write (discarded attempt leaking?)", s, extra), what())
		return
	}
	if s.retry {
		rep.Count("shapes_after_a_discarded_attempt")
	}
	if s.status == 0 {
		rep.Count("shapes_with_implicit_status")
	}
	if len(wantBody) == 0 {
		rep.Count("shapes_with_empty_body")
	}
}

func shapeServer() (*lib.Server, func(shape)) {
	var cur shape
	attempt := 0
	h := http.HandlerFunc(func(w http.ResponseWriter, r *http.Request) {
		attempt++
		if cur.retry && attempt == 1 {
			if lib.HalfCloseAfterRequest {
				// give the server's connection reader time to notice that the client has finished sending
				select {
				case <-r.Context().Done():
				case <-time.After(2 * time.Second):
				}
			}
			w.Header().Set("X-Discarded", "leak")
			w.Header().Add("X-Dup", "discarded")
			// ... and headers stored under non-canonical keys, by direct assignment to the map (legal; how a handler sends a
			// header whose spelling must be preserved)
			w.Header()["x-discarded-lower"] = []string{"leak"}
			w.Header()["X-Discarded-ID"] = []string{"leak"}
			w.WriteHeader(502)
			w.Write([]byte("DISCARDED-ATTEMPT-BODY"))
			return
		}
		var n int
		for _, p := range shapeBody(cur.body) {
			n += len(p)
		}
		switch cur.headers {
		case 1:
			w.Header().Set("X-A", "1")
		case 2:
			w.Header().Add("X-Dup", "a")
			w.Header().Add("X-Dup", "b")
			w.Header().Add("X-Dup", "a")
		case 3:
			w.Header().Set("Content-Length", fmt.Sprint(n))
		case 4:
			w.Header().Set("Content-Length", "0")
		case 5:
			// what net/http documents for switching off an automatic header: the key present with no value
			w.Header()["Content-Type"] = nil
			w.Header()["Date"] = nil
		}
		w.Header().Set("X-Final", "yes")
		if cur.status != 0 {
			w.WriteHeader(cur.status)
		}
		for _, p := range shapeBody(cur.body) {
			if shapeCopied(cur.body) {
				io.Copy(w, plainReader{bytes.NewReader(p)})
				continue
			}
			w.Write(p)
		}
	})
	opts := []buffer.Option{buffer.Retry("IsNetworkError() && Attempts() < 2"), buffer.MemResponseBodyBytes(32)}
	if verboseRun {
		opts = append(opts, buffer.Verbose(true), buffer.Logger(lib.FormatLogger{}))
	}
	b, err := buffer.New(h, opts...)
	if err != nil {
		panic(err)
	}
	srv := lib.StartServer(b)
	return srv, func(s shape) { cur = s; attempt = 0 }
}

func RunC07(tier string, sh lib.Shard, rep *lib.Report) {
	progs := retryPrograms(tier)
	seqs := statusSequences()
	shs := shapes()
	rep.Bounds["programs"] = len(progs) + 1
	rep.Bounds["status_sequences"] = len(seqs)
	rep.Bounds["response_shapes"] = len(shs)
	rep.Rule = "(a) every generated retry expression (all 61 atoms; covering selection of 1- and 2-connective compounds, with/without parentheses; plus 'no retry option') x method {GET,POST; and get,Post,PATCH for programs that read the method} x 31 per-attempt status sequences, run on the real buffer (one long-lived instance per expression serving all its exchanges in sequence) and compared with a reference evaluator (expected invocations = min(11, first attempt whose predicate is false)) and with the final attempt's marker; (b) every response shape status x header set x body chunking, with and without a discarded first attempt, through a real loopback server and a raw TCP client that must read exactly one well-formed response; non-trivial = programs that retried + shapes after a discarded attempt"
	rep.Assume("an attempt without explicit status may be read as code 0 or 200 by the retry expression (either count accepted)")
	rep.Require("programs_that_retried", "programs_hitting_the_cap", "shapes_after_a_discarded_attempt", "shapes_with_implicit_status", "shapes_with_empty_body", "shapes_for_a_half_closed_client")
	all := append([]*expr{nil}, progs...)
	for i, p := range all {
		if !sh.Mine(i) {
			continue
		}
		if lib.Expired() {
			rep.Exhaustive = false
			break
		}
		ms := []string{"GET", "POST"}
		if p != nil && strings.Contains(p.String(), "RequestMethod") {
			// methods are case-sensitive tokens: "get" and "Post" are legal methods that equal neither "GET" nor "POST"
			ms = append(ms, "get", "Post", "PATCH")
			rep.Count("programs_run_with_case_variant_methods")
		}
		for _, m := range ms {
			for _, seq := range seqs {
				runProgram(p, m, seq, rep)
			}
		}
		if p != nil {
			rep.Sample(3, p.String())
		}
	}
	// a client that half-closes its connection after sending the request (it is still reading!): every shape that
	// comes after a discarded attempt once more
	{
		lib.HalfCloseAfterRequest = true
		srv, set := shapeServer()
		for i, s := range shs {
			if sh.Mine(i) && s.retry {
				runShape(s, srv.Addr, set, rep)
				rep.Count("shapes_for_a_half_closed_client")
			}
		}
		srv.Close()
		lib.HalfCloseAfterRequest = false
	}
	for _, verbose := range []bool{false, true} {
		verboseRun = verbose
		srv, set := shapeServer()
		for i, s := range shs {
			if sh.Mine(i) {
				runShape(s, srv.Addr, set, rep)
			}
		}
		srv.Close()
		if verbose {
			// a slice of the programs again with the verbose option
			for i, p := range all {
				if sh.Mine(i) && i%7 == 0 {
					for _, seq := range seqs[:12] {
						runProgram(p, "POST", seq, rep)
					}
					rep.Count("programs_rerun_verbose")
				}
			}
		}
	}
	verboseRun = false
	rep.Nontrivial = rep.Counters["programs_that_retried"] + rep.Counters["shapes_after_a_discarded_attempt"]
}

func ReplayC07(rp map[string]any) (bool, string) {
	rep := lib.NewReport("C07", "replay")
	verboseRun = rp["verbose"] == true
	if rp["mode"] == "shape" {
		lib.HalfCloseAfterRequest = rp["half_close"] == true
		defer func() { lib.HalfCloseAfterRequest = false }()
		srv, set := shapeServer()
		defer srv.Close()
		for _, s := range shapes() {
			if s.String() == rp["shape"] {
				runShape(s, srv.Addr, set, rep)
			}
		}
	} else {
		var seq []int
		for _, x := range rp["statuses"].([]any) {
			seq = append(seq, int(x.(float64)))
		}
		name := rp["program"].(string)
		var prog *expr
		found := name == "<no retry option>"
		for _, tier := range []string{"quick", "thorough"} {
			for _, p := range retryPrograms(tier) {
				if !found && p.String() == name {
					prog, found = p, true
				}
			}
		}
		if !found {
			return false, "unknown program"
		}
		// the expression's long-lived instance had served other exchanges before this one: re-run them in the same order
		c07instances = map[string]*c07instance{}
		target := fmt.Sprint(seq)
		method := rp["method"].(string)
		ms := []string{"GET", "POST"}
		if prog != nil && strings.Contains(prog.String(), "RequestMethod") {
			ms = append(ms, "get", "Post", "PATCH")
		}
		seqs := statusSequences()
		if verboseRun {
			ms, seqs = []string{"POST"}, seqs[:12]
		}
		done := false
		for _, m := range ms {
			for _, sq := range seqs {
				if done {
					break
				}
				rep = lib.NewReport("C07", "replay")
				runProgram(prog, m, sq, rep)
				done = m == method && fmt.Sprint(sq) == target
			}
		}
		if !done {
			rep = lib.NewReport("C07", "replay")
			runProgram(prog, method, seq, rep)
		}
	}
	if len(rep.Violations) > 0 {
		return true, rep.Violations[0].Key + " :: " + strings.SplitN(rep.Violations[0].Detail, "\n", 2)[0]
	}
	return false, "exactly one response, the final attempt's"
}

package lib

import (
	"io"
	"log"
)

func quietLogger() *log.Logger { return log.New(io.Discard, "", 0) }

package lib

import (
	"crypto/sha1"
	"fmt"
	"time"
)

// Model describes an explicit-state search over operation histories of REAL
// objects. A state is identified with the shortest history that reaches it; a
// successor is computed by building a fresh instance, replaying that history and
// applying one more operation (live Go objects cannot be cloned).
type Model[S any] struct {
	Name string
	// Ops is the alphabet, simplest first (so the first counterexample is the shortest).
	Ops []string
	// New builds a fresh system: real object(s) under test plus the oracle's
	// reference/monitor state. It must (re)freeze the clock.
	New func() S
	// Apply runs operation op on the real object(s) and the reference model and
	// returns what was observed (part of replay artefacts).
	Apply func(s S, op int) string
	// Enabled optionally prunes operations in a state (nil = all enabled).
	Enabled func(s S, op int) bool
	// Key is the canonical state key (deep dump of the real objects + monitor).
	Key func(s S) string
	// Check evaluates the oracle in the state just reached. hist/obs are the full
	// history and its observations. It may destroy s (continuation probes).
	Check func(s S, hist []int, obs []string, rep *Report)
	// OnTransition, if set, is evaluated on EVERY transition (also those that lead
	// to an already known state); it must not modify s.
	OnTransition func(s S, hist []int, obs []string, rep *Report)
	// Probe, if set, is a fixed observation suite run on a fresh copy of every
	// new state and on every history that is merged into an existing key; a
	// disagreement means the key abstraction is unsound (exit 3).
	Probe func(s S) string
	// EnvOp / SaveEnv / RestoreEnv (optional): operations that change only the
	// environment (the frozen clock) and leave the real objects untouched can be
	// applied to ONE instance of the parent state, restoring the environment in
	// between, instead of rebuilding the parent for each of them. Used only when
	// Check and Probe are nil (they may consume the instance).
	EnvOp      func(op int) bool
	SaveEnv    func(s S) any
	RestoreEnv func(s S, env any)
	// MaxDepth bounds history length (0 = run to fixpoint).
	MaxDepth int
	// MaxStates caps the search (0 = none); hitting it clears Exhaustive.
	MaxStates int
	// Roots are the initial histories (nil = the empty history).
	Roots [][]int
	// Sharding: with Shard.N > 1 every worker runs the search up to ShardLevel
	// (only shard 0 evaluates the oracle and counts there), then the distinct
	// frontier at that depth is distributed round-robin and each worker continues
	// from its share only. States shared by several subtrees are re-discovered.
	Shard      Shard
	ShardLevel int
	// Deadline (zero = none): internal time budget; hitting it clears Exhaustive.
	Deadline time.Time
}

type XResult struct {
	States, Transitions, Depth int
	Complete                   bool // fixpoint or full depth reached without cap
	Merges, ProbeChecks        int
}

func hashKey(k string) [20]byte { return sha1.Sum([]byte(k)) }

func (m *Model[S]) Build(hist []int) (S, []string) {
	s := m.New()
	obs := make([]string, 0, len(hist)+1)
	for _, op := range hist {
		obs = append(obs, m.Apply(s, op))
	}
	return s, obs
}

// OpNames renders a history for replay artefacts.
func (m *Model[S]) OpNames(hist []int) []string {
	out := make([]string, len(hist))
	for i, op := range hist {
		out[i] = m.Ops[op]
	}
	return out
}

// Run performs the breadth-first search and feeds rep.
func (m *Model[S]) Run(rep *Report) XResult {
	type entry struct{ probe [20]byte }
	seen := map[[20]byte]entry{}
	var res XResult
	res.Complete = true
	roots := m.Roots
	if roots == nil {
		roots = [][]int{{}}
	}
	var frontier [][]int
	sharded := m.Shard.N > 1
	common := sharded // true while at depth <= ShardLevel: work every worker repeats
	var visitBuilt func(s S, hist []int, obs []string) bool
	visit := func(hist []int) bool {
		s, obs := m.Build(hist)
		return visitBuilt(s, hist, obs)
	}
	visitBuilt = func(s S, hist []int, obs []string) bool {
		if m.OnTransition != nil && len(hist) > 0 && (!common || m.Shard.I == 0) {
			m.OnTransition(s, hist, obs, rep)
		}
		k := hashKey(m.Name + "\x00" + m.Key(s))
		if e, ok := seen[k]; ok {
			res.Merges++
			if m.Probe != nil {
				res.ProbeChecks++
				if p := hashKey(m.Probe(s)); p != e.probe {
					rep.DistrustF("ABSTRACTION-UNSOUND model=%s history=%v merges into a state with different probe observations", m.Name, m.OpNames(hist))
				}
			}
			return false
		}
		var e entry
		counted := !common || m.Shard.I == 0
		if m.Check != nil && counted {
			m.Check(s, hist, obs, rep)
		}
		if m.Probe != nil {
			s2, _ := m.Build(hist)
			e.probe = hashKey(m.Probe(s2))
		}
		seen[k] = e
		if counted {
			res.States++
			rep.StateHashes = append(rep.StateHashes, k[:8]...)
		}
		return true
	}
	for _, r := range roots {
		if visit(r) {
			frontier = append(frontier, r)
		}
	}
	depth := 0
	for len(frontier) > 0 {
		if m.MaxDepth > 0 && depth >= m.MaxDepth {
			res.Complete = false // bounded by depth, not a fixpoint
			break
		}
		if sharded && common && depth >= m.ShardLevel {
			common = false
			var mine [][]int
			for i, h := range frontier {
				if m.Shard.Mine(i) {
					mine = append(mine, h)
				}
			}
			frontier = mine
		}
		var next [][]int
		for _, hist := range frontier {
			if !m.Deadline.IsZero() && time.Now().After(m.Deadline) {
				res.Complete = false
				rep.Exhaustive = false
				rep.Bounds[m.Name+".deadline_hit_at_depth"] = depth
				return m.finish(rep, res, depth)
			}
			var en []int
			if m.Enabled != nil {
				s, _ := m.Build(hist)
				for op := range m.Ops {
					if m.Enabled(s, op) {
						en = append(en, op)
					}
				}
			} else {
				for op := range m.Ops {
					en = append(en, op)
				}
			}
			shareParent := m.EnvOp != nil && m.Check == nil && m.Probe == nil
			var parent S
			var parentObs []string
			var env any
			haveParent := false
			for _, op := range en {
				h2 := append(append(make([]int, 0, len(hist)+1), hist...), op)
				if !common || m.Shard.I == 0 {
					res.Transitions++
				}
				var isNew bool
				if shareParent && m.EnvOp(op) {
					if !haveParent {
						parent, parentObs = m.Build(hist)
						env = m.SaveEnv(parent)
						haveParent = true
					}
					o := m.Apply(parent, op)
					isNew = visitBuilt(parent, h2, append(append(make([]string, 0, len(parentObs)+1), parentObs...), o))
					m.RestoreEnv(parent, env)
				} else {
					isNew = visit(h2)
				}
				if isNew {
					next = append(next, h2)
					if m.MaxStates > 0 && res.States >= m.MaxStates {
						res.Complete = false
						rep.Exhaustive = false
						rep.Bounds[m.Name+".state_cap_hit"] = m.MaxStates
						return m.finish(rep, res, depth+1)
					}
				}
			}
		}
		frontier = next
		depth++
	}
	return m.finish(rep, res, depth)
}

func (m *Model[S]) finish(rep *Report, res XResult, depth int) XResult {
	res.Depth = depth
	rep.States += res.States
	rep.Transitions += res.Transitions
	rep.Evaluations += res.Transitions + 1
	rep.Add("merged_histories", res.Merges)
	rep.Add("abstraction_probe_checks", res.ProbeChecks)
	return res
}

// Describe is a helper for evidence bounds.
func (r XResult) Describe() string {
	if r.Complete {
		return fmt.Sprintf("fixpoint: %d states, %d transitions, longest shortest-history %d", r.States, r.Transitions, r.Depth)
	}
	return fmt.Sprintf("depth-bounded: %d states, %d transitions, all histories of length <= %d", r.States, r.Transitions, r.Depth)
}

// ParseOps maps recorded operation names back to alphabet indices.
func (m *Model[S]) ParseOps(v any) ([]int, error) {
	list, _ := v.([]any)
	out := make([]int, 0, len(list))
	for _, x := range list {
		name, _ := x.(string)
		idx := -1
		for i, o := range m.Ops {
			if o == name {
				idx = i
			}
		}
		if idx < 0 {
			return nil, fmt.Errorf("operation %q is not in the alphabet of %s", name, m.Name)
		}
		out = append(out, idx)
	}
	return out, nil
}

// ReplayHistory re-executes one history without the search: OnTransition after
// every step, Check in the final state. Returns the first violation, if any.
func (m *Model[S]) ReplayHistory(hist []int, rep *Report) (bool, string) {
	s := m.New()
	var obs []string
	for i, op := range hist {
		obs = append(obs, m.Apply(s, op))
		if m.OnTransition != nil {
			m.OnTransition(s, hist[:i+1], obs, rep)
		}
	}
	if m.Check != nil && len(rep.Violations) == 0 {
		m.Check(s, hist, obs, rep)
	}
	if len(rep.Violations) > 0 {
		return true, rep.Violations[0].Key + " :: " + rep.Violations[0].Detail
	}
	return false, fmt.Sprintf("history %v (observations %v): oracle satisfied", m.OpNames(hist), obs)
}

"""Table of checks: which worker parts decide which property, at which level."""

CHECKS = {
    "C17": dict(level="model_checking", parts=[dict(bin="vh", part="c17", shards=16, budget=dict(quick=100, thorough=1500))]),
}

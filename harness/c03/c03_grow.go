package c03

import (
	"fmt"
	"math/big"
	"net/http"
	"strings"
	"time"

	"github.com/vulcand/oxy/v2/internal/holsterv4/clock"
	"github.com/vulcand/oxy/v2/ratelimit"
	"github.com/vulcand/oxy/v2/zverif/lib"
)

// A source whose rate set GROWS while it is being tracked: the ExtractRates option first resolves to {1s: 2/2}
// and, from the operation Grow on, to {1s: 2/2, 30s: 3/3} (nothing is dropped, a longer period is added). From
// that instant the 30s rate is configured on every request and its bound must hold - which needs the entry to be
// remembered for 10 x 30s + 1s from then on, not for the 11s of the old set.

var growShort = rateSpec{time.Second, 2, 2}
var growLong = rateSpec{30 * time.Second, 3, 3}

type gsys struct {
	tl     *ratelimit.TokenLimiter
	served int
	grown  bool
	debt   *big.Rat // leaky-bucket debt of the 30s rate, counted from Grow
	lastT  time.Time
}

func newGsys() *gsys {
	clock.Freeze(base)
	s := &gsys{debt: new(big.Rat)}
	defaults := ratelimit.NewRateSet()
	defaults.Add(time.Hour, 1, 1)
	tl, err := ratelimit.New(http.HandlerFunc(func(w http.ResponseWriter, r *http.Request) {
		s.served++
		w.WriteHeader(200)
	}), extractor(), defaults, ratelimit.ExtractRates(ratelimit.RateExtractorFunc(func(*http.Request) (*ratelimit.RateSet, error) {
		rs := ratelimit.NewRateSet()
		rs.Add(growShort.period, growShort.average, growShort.burst)
		if s.grown {
			rs.Add(growLong.period, growLong.average, growLong.burst)
		}
		return rs, nil
	})))
	if err != nil {
		panic(err)
	}
	s.tl = tl
	return s
}

func (s *gsys) leak() {
	now := clock.Now()
	if s.grown && !s.lastT.IsZero() {
		l := new(big.Rat).SetFrac(new(big.Int).Mul(big.NewInt(int64(now.Sub(s.lastT))), big.NewInt(growLong.average)), big.NewInt(int64(growLong.period)))
		s.debt.Sub(s.debt, l)
		if s.debt.Sign() < 0 {
			s.debt.SetInt64(0)
		}
	}
	s.lastT = now
}

func growModel(depth int) *lib.Model[*gsys] {
	type od struct {
		kind   int // 0 request, 1 advance, 2 grow
		amount int64
		d      time.Duration
	}
	names := []string{"Req(1)", "Req(2)", "Grow", "Advance(1s)", "Advance(12s)", "Advance(10s)"}
	descs := []od{{0, 1, 0}, {0, 2, 0}, {2, 0, 0}, {1, 0, time.Second}, {1, 0, 12 * time.Second}, {1, 0, 10 * time.Second}}
	m := &lib.Model[*gsys]{Name: "limiter/rate-set-grows-by-a-longer-period", Ops: names, MaxDepth: depth, Deadline: lib.Deadline}
	m.New = newGsys
	m.Apply = func(s *gsys, op int) string {
		d := descs[op]
		switch d.kind {
		case 1:
			clock.Advance(d.d)
			return ""
		case 2:
			s.leak()
			s.grown = true
			return "grown"
		}
		o := doReq(s.tl, &s.served, "a", d.amount)
		if o.served && s.grown {
			s.leak()
			s.debt.Add(s.debt, new(big.Rat).SetInt64(d.amount))
			if s.debt.Cmp(new(big.Rat).SetInt64(growLong.burst+1)) > 0 {
				return o.String() + "/BOUND-EXCEEDED 30s-rate debt=" + s.debt.FloatString(3)
			}
		}
		return o.String()
	}
	m.Enabled = func(s *gsys, op int) bool { return descs[op].kind != 2 || !s.grown }
	m.Key = func(s *gsys) string {
		now := clock.Now().UTC()
		dm := lib.Dumper{Now: now, EpochSeconds: isEpoch}
		s.leak()
		return dm.Dump(s.tl) + fmt.Sprintf("|%v|%s|%d", s.grown, s.debt.RatString(), now.UnixNano())
	}
	m.OnTransition = func(s *gsys, hist []int, obs []string, rep *lib.Report) {
		o := obs[len(obs)-1]
		if strings.HasPrefix(o, "200/") || strings.HasPrefix(o, "429/") {
			rep.Count("requests")
			if s.grown {
				rep.Count("requests_after_the_rate_set_grew")
			}
		}
		if strings.Contains(o, "BOUND-EXCEEDED") {
			rep.Violate("C03:admission-bound-exceeded:rate-set-grew", "after the source's rate set grew by {30s: 3/3} the 30s rate admitted more than burst + T/(period/average) + 1: "+o[strings.Index(o, "BOUND-EXCEEDED"):],
				map[string]any{"engine": "xstate", "part": "c03", "config": "grow", "ops": m.OpNames(hist), "observations": obs})
		}
	}
	return m
}

// runGrow: all histories of the given depth from the initial state, and from the prepared state "tracked under
// the short set, grown, long bucket drained" (5 operations in).
func runGrow(tier string, sh lib.Shard, rep *lib.Report) {
	depth := 6
	if tier == "thorough" {
		depth = 8
	}
	m := growModel(depth)
	m.Shard, m.ShardLevel = sh, 2
	m.Run(rep)
	m2 := growModel(5)
	m2.Name += "/from-drained-long-bucket"
	m2.Shard, m2.ShardLevel = sh, 2
	// Req(1) under the short set; Grow; 1s; Req(2) (30s bucket 3 -> 1); 1s; Req(1) (-> 0): the long bucket is drained
	m2.Roots = [][]int{{0, 2, 3, 1, 3, 0}}
	probe := m2.New()
	all := true
	for i, o := range m2.Roots[0] {
		if out := m2.Apply(probe, o); (i == 0 || i == 3 || i == 5) && !strings.HasPrefix(out, "200/") {
			all = false
		}
	}
	if all {
		rep.Count("prepared_state_long_bucket_drained")
	}
	m2.Run(rep)
	rep.Count("growing_rate_set_searches")
	rep.Require("prepared_state_long_bucket_drained")
}

func replayGrow(rp map[string]any) (bool, string) {
	m := growModel(0)
	hist, err := m.ParseOps(rp["ops"])
	if err != nil {
		return false, err.Error()
	}
	return m.ReplayHistory(hist, lib.NewReport("C03", "replay"))
}

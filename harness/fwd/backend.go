// Package fwd: the forwarder (forward.New = httputil.ReverseProxy configured by
// oxy). backend.go: a raw TCP backend that records the exact bytes it receives
// and plays a response script with a fault at a chosen step.
package fwd

import (
	"bufio"
	"bytes"
	"io"
	"net"
	"strconv"
	"strings"
	"sync"
	"time"
)

type stepKind int

const (
	stepWrite stepKind = iota
	stepClose          // orderly close (FIN)
	stepReset          // abortive close (RST via SO_LINGER 0)
	stepStall          // hold the connection open until the harness releases it
)

type step struct {
	kind stepKind
	data []byte
}

type Backend struct {
	ln      net.Listener
	Addr    string
	mu      sync.Mutex
	script  []step
	got     chan []byte
	release chan struct{}
	wg      sync.WaitGroup
}

func NewBackend() *Backend {
	ln, err := net.Listen("tcp", "127.0.0.1:0")
	if err != nil {
		panic(err)
	}
	b := &Backend{ln: ln, Addr: ln.Addr().String(), got: make(chan []byte, 16), release: make(chan struct{})}
	go b.loop()
	return b
}

func (b *Backend) Close() { b.ln.Close() }

// Play sets the script for the next connection(s) and returns a release function
// for stalled connections.
func (b *Backend) Play(s []step) (release func()) {
	b.mu.Lock()
	b.script = s
	rel := make(chan struct{})
	b.release = rel
	b.mu.Unlock()
	var once sync.Once
	return func() { once.Do(func() { close(rel) }) }
}

// Received returns the bytes of the next request that reached the backend (nil if
// none arrived within d; only used after the proxy call has returned).
func (b *Backend) Received(d time.Duration) []byte {
	select {
	case x := <-b.got:
		return x
	case <-time.After(d):
		return nil
	}
}

// Drain forgets requests recorded so far.
func (b *Backend) Drain() {
	for {
		select {
		case <-b.got:
		default:
			return
		}
	}
}

func (b *Backend) loop() {
	for {
		c, err := b.ln.Accept()
		if err != nil {
			return
		}
		b.mu.Lock()
		script, rel := b.script, b.release
		b.mu.Unlock()
		b.wg.Add(1)
		go func() {
			defer b.wg.Done()
			b.serve(c, script, rel)
		}()
	}
}

func readRequest(c net.Conn) []byte {
	br := bufio.NewReader(c)
	var buf bytes.Buffer
	cl := 0
	chunked := false
	for {
		line, err := br.ReadString('\n')
		buf.WriteString(line)
		if err != nil {
			return buf.Bytes()
		}
		l := strings.ToLower(line)
		if strings.HasPrefix(l, "content-length:") {
			cl, _ = strconv.Atoi(strings.TrimSpace(line[len("content-length:"):]))
		}
		if strings.HasPrefix(l, "transfer-encoding:") && strings.Contains(l, "chunked") {
			chunked = true
		}
		if line == "\r\n" {
			break
		}
	}
	if chunked {
		for {
			line, err := br.ReadString('\n')
			buf.WriteString(line)
			if err != nil {
				return buf.Bytes()
			}
			n, _ := strconv.ParseInt(strings.TrimSpace(line), 16, 64)
			if n == 0 {
				l2, _ := br.ReadString('\n')
				buf.WriteString(l2)
				break
			}
			chunk := make([]byte, n+2)
			io.ReadFull(br, chunk)
			buf.Write(chunk)
		}
	} else if cl > 0 {
		body := make([]byte, cl)
		io.ReadFull(br, body)
		buf.Write(body)
	}
	return buf.Bytes()
}

func (b *Backend) serve(c net.Conn, script []step, rel chan struct{}) {
	defer c.Close()
	for first := true; ; first = false {
		c.SetDeadline(time.Now().Add(60 * time.Second))
		req := readRequest(c)
		if len(req) == 0 {
			return // the proxy closed an idle keep-alive connection
		}
		if !first {
			// a further request on a kept-alive connection gets the script that is current now
			b.mu.Lock()
			script, rel = b.script, b.release
			b.mu.Unlock()
		}
		b.got <- req
		for _, s := range script {
			switch s.kind {
			case stepWrite:
				if _, err := c.Write(s.data); err != nil {
					return
				}
			case stepClose:
				return
			case stepReset:
				if tc, ok := c.(*net.TCPConn); ok {
					tc.SetLinger(0)
				}
				return
			case stepStall:
				select {
				case <-rel:
				case <-time.After(50 * time.Second):
				}
				return
			}
		}
		// script played completely without a closing step: keep the connection alive
	}
}

//go:build verif

package main

import (
	"github.com/vulcand/oxy/v2/zverif/c01"
	"github.com/vulcand/oxy/v2/zverif/c02"
	"github.com/vulcand/oxy/v2/zverif/c04"
	"github.com/vulcand/oxy/v2/zverif/c09"
	"github.com/vulcand/oxy/v2/zverif/c14"
	"github.com/vulcand/oxy/v2/zverif/c18"
	"github.com/vulcand/oxy/v2/zverif/cb"
	"github.com/vulcand/oxy/v2/zverif/ovl"
)

func init() {
	parts["cbs"] = cb.RunSched
	finders["cbs"] = cb.FindSched
	parts["c09"] = c09.Run
	finders["c09"] = c09.Find
	parts["c18"] = c18.Run
	replays["c18"] = c18.Replay
	parts["c14s"] = c14.RunSched
	finders["c14s"] = c14.Find
	parts["c02s"] = c02.RunSched
	finders["c02s"] = c02.Find
	parts["c01s"] = c01.RunSched
	finders["c01s"] = c01.Find
	parts["ovl"] = ovl.Run
	finders["ovl"] = ovl.Find
	parts["c04"] = c04.Run
	finders["c04"] = c04.Find
	replays["c04wide"] = c04.ReplayWide
}

// replays for the sequential (non-scheduler) parts that live in this binary.
var replays = map[string]func(rp map[string]any) (bool, string){}

// Package c19: built-in source extractors, bounded-exhaustive enumeration of
// remote-address strings, Host values, header names/values and variable names
// against the real utils.NewExtractor.
package c19

import (
	"fmt"
	"net/http"
	"net/http/httptest"
	"net/netip"
	"strings"

	"github.com/vulcand/oxy/v2/utils"
	"github.com/vulcand/oxy/v2/zverif/lib"
)

type addr struct {
	remote string // what net/http puts into RemoteAddr
	ip     string // the peer's IP address without zone
	zone   string
}

func wellFormed() []addr {
	var out []addr
	octets := []int{0, 1, 10, 127, 255}
	ports := []int{1, 80, 65535}
	for _, a := range octets {
		for _, b := range octets {
			for _, c := range octets {
				for _, d := range octets {
					ip := fmt.Sprintf("%d.%d.%d.%d", a, b, c, d)
					for _, p := range ports {
						out = append(out, addr{fmt.Sprintf("%s:%d", ip, p), ip, ""})
					}
				}
			}
		}
	}
	for _, ip := range []string{"::", "::1", "fe80::1", "2001:db8::1", "::ffff:1.2.3.4", "2001:db8:0:1:2:3:4:5"} {
		for _, z := range []string{"", "eth0", "1"} {
			for _, p := range ports {
				h := ip
				if z != "" {
					h += "%" + z
				}
				out = append(out, addr{fmt.Sprintf("[%s]:%d", h, p), ip, z})
			}
		}
	}
	return out
}

func extract(ex utils.SourceExtractor, mutate func(r *http.Request)) (tok string, amount int64, err error, panicked any) {
	defer func() {
		if r := recover(); r != nil {
			panicked = r
		}
	}()
	req := httptest.NewRequest("GET", "http://placeholder/", nil)
	mutate(req)
	tok, amount, err = ex.Extract(req)
	return
}

func Run(tier string, sh lib.Shard, rep *lib.Report) {
	rep.Rule = "exhaustive enumeration: IPv4 quads over {0,1,10,127,255}^4 x 3 ports, 6 IPv6 addresses x 3 zone forms x 3 ports (in the bracketed form net/http produces), every string of length <= 5 over {1 a : [ ] . %} as malformed input, all pairs of well-formed addresses for the iff test, Host values, header name/value case variants, variable names incl. misspellings; non-trivial = distinct well-formed addresses + distinct accepted/refused variables"
	rep.Require("wellformed_addresses", "ipv6_addresses", "pairs_compared", "malformed_strings", "variables_refused", "header_cases", "header_values_bytewise", "addresses_after_a_fragment")
	what := func(kind string, in any) map[string]any {
		return map[string]any{"engine": "enum", "part": "c19", "kind": kind, "input": in}
	}
	ipx, err := utils.NewExtractor("client.ip")
	if err != nil {
		rep.Violate("C19:client.ip-refused", err.Error(), what("variable", "client.ip"))
		return
	}
	// 1. well-formed addresses
	as := wellFormed()
	toks := make([]string, len(as))
	for i, a := range as {
		a := a
		tok, amount, err, p := extract(ipx, func(r *http.Request) { r.RemoteAddr = a.remote })
		rep.Evaluations++
		rep.Count("wellformed_addresses")
		if a.zone != "" || strings.Contains(a.ip, ":") {
			rep.Count("ipv6_addresses")
		}
		form := "ipv4"
		if strings.Contains(a.ip, ":") {
			form = "ipv6"
			if a.zone != "" {
				form = "ipv6-zone"
			}
		}
		switch {
		case p != nil:
			rep.Violate("C19:client.ip:panic:"+form, fmt.Sprintf("RemoteAddr %q: panic %v", a.remote, p), what("remote", a.remote))
		case err != nil:
			rep.Violate("C19:client.ip:error:"+form, fmt.Sprintf("RemoteAddr %q: error %v", a.remote, err), what("remote", a.remote))
		case amount != 1:
			rep.Violate("C19:client.ip:amount:"+form, fmt.Sprintf("RemoteAddr %q: amount %d, want 1", a.remote, amount), what("remote", a.remote))
		case tok != a.ip && !(a.zone != "" && tok == a.ip+"%"+a.zone):
			rep.Violate("C19:client.ip:wrong-token:"+form, fmt.Sprintf("RemoteAddr %q: token %q, want the peer's IP address %q", a.remote, tok, a.ip), what("remote", a.remote))
		}
		toks[i] = tok
		rep.Outcome(form)
	}
	// 2. same token iff same address (pairs differing only in zone excluded)
	for i := range as {
		for j := i + 1; j < len(as); j++ {
			if as[i].ip == as[j].ip && as[i].zone != as[j].zone {
				continue
			}
			rep.Counters["pairs_compared"]++
			same := as[i].ip == as[j].ip
			if (toks[i] == toks[j]) != same {
				form := "ipv4"
				if strings.Contains(as[i].ip, ":") || strings.Contains(as[j].ip, ":") {
					form = "ipv6"
				}
				rep.Violate("C19:client.ip:token-iff-address:"+form, fmt.Sprintf("%q -> %q and %q -> %q: same address %v but same token %v", as[i].remote, toks[i], as[j].remote, toks[j], same, toks[i] == toks[j]),
					what("pair", []string{as[i].remote, as[j].remote}))
			}
		}
	}
	rep.Evaluations += rep.Counters["pairs_compared"]
	// 2b. what the extractor has seen BEFORE must not matter: the long-lived extractor is first shown a fragment of
	// the address (every proper prefix and suffix of the RemoteAddr text: bare addresses without a port, an address
	// that the next one extends, half a bracket, the empty string, ...), then the well-formed address itself.
	for i, a := range as {
		a := a
		var frags []string
		for k := 0; k < len(a.remote); k++ {
			frags = append(frags, a.remote[:k])
			if k > 0 {
				frags = append(frags, a.remote[k:])
			}
		}
		frags = append(frags, a.ip, "["+a.ip+"]", "@", "/var/run/proxy.sock")
		for _, f := range frags {
			f := f
			extract(ipx, func(r *http.Request) { r.RemoteAddr = f })
			tok, amount, err, p := extract(ipx, func(r *http.Request) { r.RemoteAddr = a.remote })
			rep.Evaluations++
			rep.Count("addresses_after_a_fragment")
			if p != nil || err != nil || amount != 1 || tok != toks[i] {
				rep.Violate("C19:client.ip:depends-on-earlier-request", fmt.Sprintf("RemoteAddr %q seen right after RemoteAddr %q: token %q amount %d err %v panic %v, on its own token %q", a.remote, f, tok, amount, err, p, toks[i]),
					what("sequence", []string{f, a.remote}))
				break
			}
		}
	}
	// 3. malformed inputs: no panic, deterministic; if it parses as host:port the token is the host
	alpha := []byte("1a:[].%")
	var gen func(cur []byte)
	gen = func(cur []byte) {
		if len(cur) > 0 {
			s := string(cur)
			t1, a1, e1, p1 := extract(ipx, func(r *http.Request) { r.RemoteAddr = s })
			t2, a2, e2, p2 := extract(ipx, func(r *http.Request) { r.RemoteAddr = s })
			rep.Evaluations++
			rep.Count("malformed_strings")
			if p1 != nil || p2 != nil {
				rep.Violate("C19:client.ip:panic:malformed", fmt.Sprintf("RemoteAddr %q: panic %v", s, p1), what("remote", s))
			} else if t1 != t2 || a1 != a2 || (e1 == nil) != (e2 == nil) {
				rep.Violate("C19:client.ip:nondeterministic", fmt.Sprintf("RemoteAddr %q: (%q,%d,%v) then (%q,%d,%v)", s, t1, a1, e1, t2, a2, e2), what("remote", s))
			} else if ap, perr := netip.ParseAddrPort(s); perr == nil && e1 == nil {
				// some short strings are in fact valid (e.g. "[::]:1")
				want := ap.Addr().WithZone("").String()
				if t1 != want && t1 != ap.Addr().String() {
					rep.Violate("C19:client.ip:wrong-token:short", fmt.Sprintf("RemoteAddr %q: token %q want %q", s, t1, want), what("remote", s))
				}
			}
		}
		if len(cur) == 5 {
			return
		}
		for _, c := range alpha {
			gen(append(cur, c))
		}
	}
	gen(nil)
	// 4. request.host
	hx, err := utils.NewExtractor("request.host")
	if err != nil {
		rep.Violate("C19:request.host-refused", err.Error(), what("variable", "request.host"))
	} else {
		for _, h := range []string{"example.com", "example.com:8080", "EXAMPLE.com", "[::1]:80", "10.0.0.1", "", "a.b.c.d.e", "xn--nxasmq6b.example"} {
			h := h
			tok, amount, err, p := extract(hx, func(r *http.Request) { r.Host = h; r.URL.Host = "other.example" })
			rep.Evaluations++
			rep.Count("host_values")
			if p != nil || err != nil || tok != h || amount != 1 {
				rep.Violate("C19:request.host:wrong-token", fmt.Sprintf("Host %q: token %q amount %d err %v panic %v", h, tok, amount, err, p), what("host", h))
			}
		}
	}
	// 5. request.header.X
	names := []string{"X-Api-Key", "x-api-key", "X-API-KEY", "Authorization", "X",
		"authorization", "user-agent", "source", "tenant", "host", "date", "etag", "request", "header", "request.header.x", "x.dotted", "a", "Te",
		// header names that coincide with the OTHER variables of the extractor language ('.' is a legal header-name character)
		"client.ip", "Client.Ip", "CLIENT.IP", "request.host", "Request.Host", "request.header", "client", "ip", "host"}
	// every name of length <= 3 over a small alphabet of header-name characters
	var short func(cur string)
	short = func(cur string) {
		if cur != "" {
			names = append(names, cur)
		}
		if len(cur) == 3 {
			return
		}
		for _, c := range "aerx-.D" {
			short(cur + string(c))
		}
	}
	short("")
	for _, name := range names {
		ex, err := utils.NewExtractor("request.header." + name)
		if err != nil {
			rep.Violate("C19:request.header-refused", fmt.Sprintf("request.header.%s refused: %v", name, err), what("variable", name))
			continue
		}
		for _, sent := range []string{name, strings.ToLower(name), strings.ToUpper(name), http.CanonicalHeaderKey(name)} {
			for _, vals := range [][]string{{"v1"}, {"v1", "v2"}, {""}, {"MiXed Case ü"}, nil, {"value-of-" + name}} {
				sent, vals := sent, vals
				tok, amount, err, p := extract(ex, func(r *http.Request) {
					for _, v := range vals {
						r.Header.Add(sent, v)
					}
					r.Header.Add("Other", "zzz")
				})
				rep.Evaluations++
				rep.Count("header_cases")
				want := ""
				if len(vals) > 0 {
					want = vals[0]
				}
				if p != nil || err != nil || tok != want || amount != 1 {
					rep.Violate("C19:request.header:wrong-token", fmt.Sprintf("extractor request.header.%s, header %q=%q: token %q amount %d err %v", name, sent, vals, tok, amount, err), what("header", []any{name, sent, vals}))
				}
			}
		}
	}
	// 5b. the token is the header's value BYTE FOR BYTE: every one- and two-byte sequence of the bytes a field value
	// may carry (HTAB, SP, visible ASCII, and 0x80-0xFF - Latin-1 text, raw binary keys, valid and invalid UTF-8
	// alike) between two fixed letters
	if bx, err := utils.NewExtractor("request.header.X-Key"); err == nil {
		var legal []byte
		for b := 0; b < 256; b++ {
			if b == '\t' || (b >= ' ' && b != 0x7f) {
				legal = append(legal, byte(b))
			}
		}
		check := func(mid []byte) {
			v := "k" + string(mid) + "z"
			tok, amount, err, p := extract(bx, func(r *http.Request) { r.Header["X-Key"] = []string{v} })
			rep.Evaluations++
			rep.Count("header_values_bytewise")
			if p != nil || err != nil || tok != v || amount != 1 {
				rep.Violate("C19:request.header:token-not-byte-exact", fmt.Sprintf("extractor request.header.X-Key, header value %q: token %q amount %d err %v panic %v", v, tok, amount, err, p), what("header_value", fmt.Sprintf("%x", v)))
			}
		}
		for _, b1 := range legal {
			check([]byte{b1})
			for _, b2 := range legal {
				check([]byte{b1, b2})
			}
		}
	}
	// 6. unsupported variables are refused when the extractor is built
	for _, v := range []string{"", "client.IP", "client.ip ", " client.ip", "clientip", "client", "request.hostx", "request.Host", "request.header.", "request.header", "request.headers.X", "header.X", "request.hos", "client.ipv4", "request.host.name"} {
		_, err := utils.NewExtractor(v)
		rep.Evaluations++
		if err == nil {
			rep.Violate("C19:unsupported-variable-accepted", fmt.Sprintf("NewExtractor(%q) succeeded", v), what("variable", v))
		} else {
			rep.Count("variables_refused")
		}
	}
	rep.Nontrivial = rep.Counters["wellformed_addresses"] + rep.Counters["variables_refused"]
	rep.Sample(5, as[0].remote)
	rep.Sample(5, as[len(as)-1].remote)
	rep.Sample(5, "1a:[]")
}

func Replay(rp map[string]any) (bool, string) {
	// the enumeration is cheap: a replay re-runs it and looks for the same key
	rep := lib.NewReport("C19", "replay")
	Run("quick", lib.Shard{I: 0, N: 1}, rep)
	key, _ := rp["key"].(string)
	for _, v := range rep.Violations {
		if v.Key == key {
			return true, v.Key + " :: " + v.Detail
		}
	}
	return false, "extractors behave as specified for this case"
}
